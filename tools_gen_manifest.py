#!/usr/bin/env python3
"""Regenerates MANIFEST.json from harness/props.py (single source of truth for what is claimed)."""
import json, os, sys
sys.path.insert(0, os.path.dirname(os.path.abspath(__file__)))
from harness.props import PROPS, NOT_APPLICABLE, HOOK_COMMITS

props = [json.loads(l) for l in open(os.path.join(os.path.dirname(os.path.abspath(__file__)), "properties.jsonl"))]
ids = [p["id"] for p in props]
checks = []
for pid in ids:
    if pid not in PROPS:
        continue
    s = PROPS[pid]
    checks.append({
        "property_id": pid,
        "quick_cmd": f"./check {pid} --tier quick",
        "thorough_cmd": f"./check {pid} --tier thorough",
        "evidence_file": f"/verif/evidence/{pid}.json",
        "replay_cmd_template": "./check --replay {path}",
        "engine": "tlc+replay",
        "level_claimed": {
            "category": "model_checking",
            "text": s["level_text"],
            "design_ref": s.get("design_ref", "DESIGN.md section 6"),
        },
        "level_note": s["level_note"],
        "technique": s.get("technique", "explicit TLA+ specification model-checked by TLC over GF(p); TLC behaviours replayed into the implementation"),
    })
na = [{"property_id": pid, "reason": NOT_APPLICABLE.get(pid, "check not built yet (work in progress)")} for pid in ids if pid not in PROPS]
m = {
    "version": 1,
    "setup_cmd": "./setup.sh",
    "hooks": {
        "guard": "GAUSSIAN_TOOLBOX_VERIF",
        "enable": "no in-repo hooks are needed: the harness imports gaussian_toolbox from /repo's working tree and observes public attributes; the external call tracer (harness/tracer.py) is enabled by GAUSSIAN_TOOLBOX_VERIF=1",
        "baseline_off_cmd": "cd /repo && env -u GAUSSIAN_TOOLBOX_VERIF /venv/bin/python -m pytest -ra -q -p no:cacheprovider --timeout=900 --continue-on-collection-errors",
        "source_commits": HOOK_COMMITS,
        "add_only": True,
    },
    "engines": [
        {"name": "tlc+replay", "path": "/verif/harness", "serves_properties": [c["property_id"] for c in checks],
         "kind_free_text": "TLA+ specification (spec/*.tla) checked by TLC for K primes; behaviours decoded exactly (CRT + rational reconstruction) and replayed into /repo's gaussian_toolbox (harness/replay.py)"},
    ],
    "checks": checks,
    "not_applicable": na,
    "notes": "See DESIGN.md. exit 2 of a check = machinery failure (TLC error / specification invariant violated), never reported as a property violation.",
}
json.dump(m, open(os.path.join(os.path.dirname(os.path.abspath(__file__)), "MANIFEST.json"), "w"), indent=1)
print("checks:", [c["property_id"] for c in checks], "not_applicable:", [n["property_id"] for n in na])
