#!/bin/sh
# Offline setup: nothing to build. Verifies the tools the checks need and parses every specification module.
set -e
cd "$(dirname "$0")"
command -v java >/dev/null
test -f /opt/veriftools/tla/tla2tools.jar
/venv/bin/python -c "import jax, numpy, hypothesis" 
for f in spec/MC_*.tla; do
  (cd spec && java -cp /opt/veriftools/tla/tla2tools.jar:/opt/veriftools/tla/CommunityModules-deps.jar tla2sany.SANY "$(basename "$f")" >/dev/null) || { echo "SANY failed on $f"; exit 1; }
done
echo "setup ok"
