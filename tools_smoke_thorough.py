#!/usr/bin/env python3
"""Smoke test: start TLC on every registered instance (quick and thorough) for a short while and report any 'Error:'.

A thorough instance that fails after hours is a wasted run; this catches specification errors (unsatisfied CHOOSE, missing
menu entries, unknown constants) that only the larger constants reach.   usage: tools_smoke_thorough.py [seconds] [tier]"""
import os, re, shutil, subprocess, sys, tempfile, concurrent.futures as cf
sys.path.insert(0, os.path.dirname(os.path.abspath(__file__)))
from harness import tlcrun
from harness.props import PROPS

secs = int(sys.argv[1]) if len(sys.argv) > 1 else 60
tiers = sys.argv[2:] or ["quick", "thorough"]
seen = {}
for pid, sp in PROPS.items():
    for tier in tiers:
        for inst in sp.get(tier, []):
            if inst.get("kind") == "b2":
                continue
            seen.setdefault((inst["module"], inst["cfg"], inst.get("sample_mod")), []).append(pid + ":" + tier)


def one(key):
    module, cfg, smod = key
    wd = tempfile.mkdtemp(prefix="gt_smoke_")
    try:
        for f in os.listdir(tlcrun.SPEC_DIR):
            if f.endswith(".tla") or f == cfg:
                shutil.copy(os.path.join(tlcrun.SPEC_DIR, f), wd)
        if smod:
            p = os.path.join(wd, cfg)
            t = open(p).read()
            t = re.sub(r"SampleMod = \d+", "SampleMod = %d" % smod, t)
            open(p, "w").write(t)
        cmd = ["java", "-XX:+UseParallelGC", "-Xss512m", "-Xmx2g", "-cp", tlcrun.JAR, "tlc2.TLC", "-workers", "2",
               "-metadir", os.path.join(wd, "meta"), "-noGenerateSpecTE", "-config", cfg, module + ".tla"]
        try:
            out = subprocess.run(cmd, cwd=wd, capture_output=True, text=True, timeout=secs).stdout
            done = True
        except subprocess.TimeoutExpired as e:
            out = (e.stdout or b"").decode(errors="replace") if isinstance(e.stdout, bytes) else (e.stdout or "")
            done = False
        errs = [l for l in out.splitlines() if l.startswith("Error:")]
        return key, done, errs[:3], out[-600:] if errs else ""
    finally:
        shutil.rmtree(wd, ignore_errors=True)


bad = 0
with cf.ThreadPoolExecutor(max_workers=6) as ex:
    for key, done, errs, tail in ex.map(one, sorted(seen, key=str)):
        status = "ERROR" if errs else ("finished" if done else "running after %ds" % secs)
        print(f"{key[0]}/{key[1]}: {status}  ({', '.join(seen[key])})")
        if errs:
            bad += 1
            print("   ", errs, "\n   ", tail.replace("\n", "\n    "))
print("instances with errors:", bad)
sys.exit(1 if bad else 0)
