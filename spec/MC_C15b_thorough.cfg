CONSTANTS
  P = 46337
  Dims = {11, 22, 33}
  RPairs = {11, 12, 13, 21, 31}
  CondKinds = {"CondDiag", "CondId", "CondIdDiag"}
  Modes = {"S", "L", "SLD"}
  Ops = {"joint", "marginal", "conditional", "set_y", "cond_on_x", "mutual_information", "conditional_entropy", "int_log_cond_y", "update_sigma"}
  Offs = {0, 1}
INIT Init
NEXT Next
CHECK_DEADLOCK FALSE
PROPERTY Prop_Frame
INVARIANT Inv_CacheCoherent
INVARIANT Inv_PdfNormalised
INVARIANT Inv_ReportedMass
INVARIANT Inv_CondCoherent
INVARIANT Inv_Pointwise
INVARIANT Inv_Transform
INVARIANT Inv_SetY
INVARIANT Inv_CondOnX
INVARIANT Inv_Info
INVARIANT Inv_UpdateSigma
INVARIANT Inv_Export
