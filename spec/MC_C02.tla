------------------------------- MODULE MC_C02 -------------------------------
(***************************************************************************)
(* C02: reported mass = true integral; densities integrate to one.         *)
(* Scenario: 1 construct (every class and constructor argument             *)
(* combination)  2 construct a factor  3 a modification (none, multiply,   *)
(* hadamard, slice, normalize, get_density, product)  4-8 the five mass    *)
(* queries on the current object in one of two orders (light first / full  *)
(* first)  9 evaluate_ln on the lattice.                                   *)
(***************************************************************************)
EXTENDS GT

CONSTANTS Ds, Rs, Kinds, FKinds, Mods

n == Len(hist)
d0 == NumD(heap[1])
cur == Len(heap)

NewK(k, d, R, s) ==
    CASE k \in {"Measure", "DiagMeasure"} -> ANewMeasure(k, d, R, s)
      [] k = "PDF:S" -> ANewPdf("PDF", "S", d, R, s)
      [] k = "PDF:SL" -> ANewPdf("PDF", "SL", d, R, s)
      [] k = "PDF:SLD" -> ANewPdf("PDF", "SLD", d, R, s)
      [] k = "DiagPDF:S" -> ANewPdf("DiagPDF", "S", d, R, s)
      [] k = "DiagPDF:SL" -> ANewPdf("DiagPDF", "SL", d, R, s)
      [] k = "DiagPDF:SLD" -> ANewPdf("DiagPDF", "SLD", d, R, s)
      [] OTHER -> ANewFactor(k, d, R, s)

Nop(tag) == Emit(heap, Step("Nop", [x |-> tag], NoObj, 0, NoObj, 0, NoObj, NoObj))

Init == heap = <<>> /\ hist = <<>>

Modify ==
    \/ "none" \in Mods /\ Nop(0)
    \/ "multiply" \in Mods /\ \E full \in BOOLEAN : AMultiply(1, 2, full, "multiply")
    \/ "hadamard" \in Mods /\ \E full \in BOOLEAN : AHadamard(1, 2, full)
    \/ "slice" \in Mods /\ LET R == NumR(heap[1]) IN ASlice(1, <<R, 1>>, <<-1, 0>>)
    \/ "normalize" \in Mods /\ ANormalize(1)
    \/ "get_density" \in Mods /\ AGetDensity(1)
    \/ "product" \in Mods /\ AProduct(1)

QOrder(o) == IF o = 1 THEN <<"integral_light", "log_integral_light", "integrate1", "integral", "log_integral">>
             ELSE <<"log_integral", "integral", "integrate1", "log_integral_light", "integral_light">>
\* the object the queries address: the result of the modification if it created one, else object 1
Target == IF hist[3].id # 0 THEN hist[3].id ELSE 1

Next ==
    \/ n = 0 /\ \E d \in Ds, k \in Kinds, R \in Rs : NewK(k, d, R, 0)
    \/ n = 1 /\ \E k \in FKinds : NewK(k, d0, 2, 1)
    \/ n = 2 /\ Modify
    \/ n = 3 /\ \E o \in {1, 2} : Nop(o)
    \/ n >= 4 /\ n <= 8 /\ AQuery(Target, QOrder(hist[4].a.x)[n - 3])
    \/ n = 9 /\ AEvaluate(Target, LatticeSeq(d0), FALSE, "evaluate_ln")

Done == n = 10
Inv_Export == Export(Done)
=============================================================================
