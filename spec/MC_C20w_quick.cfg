CONSTANTS
  P = 46337
  Rs = {1, 2}
  Offs = {0}
  LimIdx = {2, 5, 7}
  Ks = {0, 1, 3}
  Warm = {"integral", "trunc"}
INIT Init
NEXT Next
CHECK_DEADLOCK FALSE
PROPERTY Prop_Frame
INVARIANT Inv_TruncCertificate
INVARIANT Inv_TruncAdditive
INVARIANT Inv_Export
