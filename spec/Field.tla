------------------------------- MODULE Field -------------------------------
(***************************************************************************)
(* L0 number domain: the prime field GF(P).                                *)
(*                                                                         *)
(* A rational number n/d is represented by its residue n * d^-1 mod P.     *)
(* The map Z_(P) -> GF(P) is a ring homomorphism, so every computation     *)
(* with +,-,*,/ whose divisors are P-units is mirrored exactly: an         *)
(* identity that is true over Q is true in GF(P).  A divisor that is a     *)
(* non-zero rational but happens to be 0 mod P yields the absorbing value  *)
(* Poison (-1); FEq treats Poison as a wildcard, so such an accident can   *)
(* never produce a false alarm.  The harness runs the same model for K     *)
(* different primes (one TLC process each) and recovers the rational by    *)
(* CRT + rational reconstruction (harness/decode.py).                      *)
(*                                                                         *)
(* P must be < 46341 so that products of two residues fit TLC's 32-bit     *)
(* integers.                                                               *)
(***************************************************************************)
EXTENDS Integers, Sequences, TLC

CONSTANT P

Poison == -1

IsP(a) == a = Poison

\* residue of an arbitrary (possibly negative) integer
FI(n) == n % P

RECURSIVE EGcd(_, _, _, _)
EGcd(r0, r1, s0, s1) ==
    IF r1 = 0 THEN s0
    ELSE LET q == r0 \div r1 IN EGcd(r1, r0 - q * r1, s1, s0 - q * s1)

FAdd(a, b) == IF a = Poison \/ b = Poison THEN Poison ELSE (a + b) % P
FSub(a, b) == IF a = Poison \/ b = Poison THEN Poison ELSE (a - b) % P
FNeg(a)    == IF a = Poison THEN Poison ELSE (P - a) % P
FMul(a, b) == IF a = Poison \/ b = Poison THEN Poison ELSE (a * b) % P
FInv(a)    == IF a = Poison \/ a = 0 THEN Poison ELSE EGcd(a, P, 1, 0) % P
FDiv(a, b) == FMul(a, FInv(b))

\* the rational n/d (n any integer, d a positive integer)
FQ(n, d) == FMul(FI(n), FInv(FI(d)))

FHalf == FInv(2)
FHalfOf(a) == FMul(FHalf, a)

\* equality modulo poison
FEq(a, b) == a = Poison \/ b = Poison \/ a = b

FAdd3(a, b, c) == FAdd(a, FAdd(b, c))
FMul3(a, b, c) == FMul(a, FMul(b, c))

\* sum of s[1..k] for a sequence / function s over 1..n of field elements
RECURSIVE FSumTo(_, _)
FSumTo(s, k) == IF k = 0 THEN 0 ELSE FAdd(s[k], FSumTo(s, k - 1))

RECURSIVE FProdTo(_, _)
FProdTo(s, k) == IF k = 0 THEN 1 ELSE FMul(s[k], FProdTo(s, k - 1))

\* integer power with non-negative integer exponent
RECURSIVE FPow(_, _)
FPow(a, n) == IF n = 0 THEN 1 ELSE FMul(a, FPow(a, n - 1))
=============================================================================
