CONSTANTS
  P = 46337
  Rs = {1, 2}
  Offs = {0}
  LimIdx = {1, 2, 3, 4, 5, 6, 7, 8}
  Ks = {0, 1, 2, 3, 4, 5, 6}
  Warm = {"none"}
INIT Init
NEXT Next
CHECK_DEADLOCK FALSE
PROPERTY Prop_Frame
INVARIANT Inv_TruncCertificate
INVARIANT Inv_TruncAdditive
INVARIANT Inv_Export
