------------------------------- MODULE MC_C16B -------------------------------
(***************************************************************************)
(* C16 with TWO approximate conditionals of the same class alive at once   *)
(* (e.g. the transition and the emission model of a state-space model):    *)
(* 1 density p(x)   2 conditional A   3 conditional B (same class and      *)
(* dimensions, different parameters)   4 transformation with one of them   *)
(* 5 the same transformation with the other   6 / 7 condition_on_x of both *)
(* Instances of a class are independent objects: what one of them computed *)
(* (kernel products, cached expectations) may not leak into the other.     *)
(***************************************************************************)
EXTENDS GT

CONSTANTS Classes, Dims, Dks, Rs, Offs

n == Len(hist)
Init == heap = <<>> /\ hist = <<>>
dx1 == NumD(heap[1])

NewC(cls, dy, dk, s) ==
    IF cls \in {"LRBF", "LSEM"} THEN ANewFeat(cls, dy, dx1, dk, s)
    ELSE ANewHetZ(cls, dy, dy, dk, dx1, s, FALSE)

Tr(k, i) == IF IsFeat(heap[i]) THEN AFeatTransform(k, i, 1) ELSE AHetTransform(k, i, 1)
Cx(i) == IF IsFeat(heap[i]) THEN AFeatCondOnX(i, 2, 0) ELSE AHetCondOnX(i, 3, 0)

Next ==
    \/ n = 0 /\ \E dd \in Dims, R \in Rs, s \in Offs : ANewPdf("PDF", "S", dd % 10, R, s)
    \/ n = 1 /\ \E cls \in Classes, dd \in Dims, dk \in Dks, s \in Offs :
          /\ dd % 10 = dx1
          /\ cls \in {"HetExp", "HetCosh"} => NumR(heap[1]) = 1        \* KF-3: the heteroscedastic classes take R = 1 only
          /\ NewC(cls, dd \div 10, dk, s)
    \/ n = 2 /\ LET a == hist[2].a A == heap[2] IN
                NewC(A.cls, IF IsFeat(A) THEN FDy(A) ELSE HDy(A), IF IsFeat(A) THEN FDk(A) ELSE HDk(A),
                     (CHOOSE s \in Offs : TRUE) + 2)
    \/ n = 3 /\ \E k \in {"marginal", "joint", "conditional"}, first \in {2, 3} : Tr(k, first)
    \/ n = 4 /\ Tr(hist[4].a.kind, 5 - hist[4].a.i)
    \/ n = 5 /\ Cx(2)
    \/ n = 6 /\ Cx(3)

Done == n = 7
Inv_Export == Export(Done)
=============================================================================
