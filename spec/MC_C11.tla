------------------------------- MODULE MC_C11 -------------------------------
(***************************************************************************)
(* C11: Bayesian updating is path independent (posterior and evidence).    *)
(*                                                                         *)
(* Mode "static": prior p(w) (heap 1), N observation models stacked in one *)
(* batch conditional C (heap 2) with individual (M_i, b_i, Sigma_i), data  *)
(* y_1..y_N.  After a marker step that fixes the route:                    *)
(*  "seq"    sequential updating; the next observation is ANY unused one,  *)
(*           so TLC explores all N! orders as interleavings.  One update = *)
(*           slice C; marginal transformation; evaluate_ln(y_i) [evidence  *)
(*           term]; conditional transformation; condition_on_x(y_i).       *)
(*  "factor" set_y on the batch; product(); prior.multiply(.., full);      *)
(*           log_integral(); get_density().                                *)
(*  "joint"  chain of joint transformations (conditionals padded with zero *)
(*           columns for the earlier observations); condition_on(y dims);  *)
(*           condition_on_x(all y); evidence = marginal(y dims) at y.      *)
(* At completion the posterior and the evidence must equal the reference   *)
(* computed from the semantic layer: posterior = normalised prior x        *)
(* likelihoods, evidence = ln of its mass.                                 *)
(*                                                                         *)
(* Mode "kalman": x_0 ~ p0 (heap 1), transition (heap 2) and observation   *)
(* (heap 3) conditionals, T predict/update steps; the reference is the     *)
(* dense joint over (x_0, x_1, y_1, ..., x_T, y_T) assembled in the spec.  *)
(***************************************************************************)
EXTENDS GT, FiniteSets

CONSTANTS Mode, Dims, Ns, Routes, Offs, CondKinds,
          IidModes     \* subset of BOOLEAN: TRUE = ONE observation model (R = 1) observed N times (i.i.d. data), FALSE = N models

n == Len(hist)
Init == heap = <<>> /\ hist = <<>>

Marker(route, N) == Emit(heap, Step("Nop", [route |-> route, nobs |-> N], NoObj, 0, NoObj, 0, NoObj, NoObj))
NopIdx(j) == Emit(heap, Step("Nop", [idx |-> <<j - 1>>], NoObj, 0, NoObj, 0, NoObj, NoObj))

\* ---------------------------------------------------------------- static
prior == heap[1]
CC == heap[2]
NObs == hist[3].a.nobs
Iid == CR(CC) = 1          \* one model, NObs observations of it (Ns never contains 1)
Comp(k) == IF Iid THEN 1 ELSE k
dw == NumD(prior)
dyS == CDy(CC)
off0 == hist[1].a.Sigma[1].d      \* just a deterministic small integer to vary the data offset
Ydata == Pick(PointMenu(dyS), NObs, 2)
route == hist[3].a.route

\* k-th sequential update occupies hist[4 + 5(k-1) .. 8 + 5(k-1)]
SeqBase(k) == 3 + 5 * (k - 1)
UsedObs == {hist[SeqBase(k) + 1].a.idx[1] + 1 : k \in 1..((n - 3 + 4) \div 5)}
PostId(k) == IF k = 1 THEN 1 ELSE hist[SeqBase(k)].id

SeqStep ==
    LET ph == (n - 3) % 5
        k  == ((n - 3) \div 5) + 1
        i  == hist[SeqBase(k) + 1].a.idx[1] + 1
        a  == IF Iid THEN 2 ELSE hist[SeqBase(k) + 1].id       \* the observation model of this update
        b  == Len(heap)
    IN /\ k <= NObs
       /\ CASE ph = 0 -> \E j \in (1..NObs) \ UsedObs : IF Iid THEN NopIdx(j) ELSE ACondSlice(2, <<j>>, <<j - 1>>)
            [] ph = 1 -> ATransform("marginal", a, PostId(k))
            [] ph = 2 -> AEvaluateQ(b, <<Ydata[i]>>, FALSE, "evaluate_ln")
            [] ph = 3 -> ATransform("conditional", a, PostId(k))
            [] ph = 4 -> ACondOnXQ(b, <<Ydata[i]>>)

FactorStep ==
    CASE n = 3 -> ASetYQ(2, Ydata)
      [] n = 4 -> AProduct(3)
      [] n = 5 -> AMultiply(1, 4, TRUE, "multiply")
      [] n = 6 -> AQuery(5, "log_integral")
      [] n = 7 -> AGetDensity(5)
      [] OTHER -> FALSE

\* joint route: observation k uses hist[2].a records, padded to the dimension of the current joint
PadM(q, dxTot) == Q([a \in 1..Len(q.n) |-> [b \in 1..dxTot |-> IF b <= dw THEN q.n[a][b] ELSE 0]], q.d)
CatY(k) == Q([a \in 1..(k * dyS) |-> Ydata[((a - 1) \div dyS) + 1].n[((a - 1) % dyS) + 1] * (60 \div Ydata[((a - 1) \div dyS) + 1].d)], 60)
YDims(k) == [a \in 1..(k * dyS) |-> dw + a]
\* step layout: for k = 1: Slice, Joint (2 steps); for k > 1: NewCondExplicit(padded), Joint (2 steps)
JointStep ==
    LET k == ((n - 3) \div 2) + 1
        ph == (n - 3) % 2
        cur == Len(heap)
        a2 == hist[2].a
    IN IF k <= NObs
       THEN CASE ph = 0 -> IF k = 1 THEN ACondSlice(2, <<1>>, <<0>>)
                           ELSE ANewCondExplicit(<<PadM(a2.M[Comp(k)], dw + (k - 1) * dyS)>>, <<a2.b[Comp(k)]>>, <<a2.Mat[Comp(k)]>>)
              [] ph = 1 -> ATransform("joint", cur, IF k = 1 THEN 1 ELSE cur - 1)
       ELSE LET m == n - 3 - 2 * NObs
                J == 2 + 2 * NObs       \* heap id of the final joint
            IN CASE m = 0 -> AConditionOn(J, YDims(NObs))
                 [] m = 1 -> ACondOnXQ(J + 1, <<CatY(NObs)>>)
                 [] m = 2 -> AMarginal(J, YDims(NObs))
                 [] m = 3 -> AEvaluateQ(J + 3, <<CatY(NObs)>>, FALSE, "evaluate_ln")
                 [] OTHER -> FALSE

StaticNext ==
    \/ n = 0 /\ \E dd \in Dims, s \in Offs : ANewPdf("PDF", "S", dd % 10, 1, s)
    \/ n = 1 /\ \E dd \in Dims, N \in Ns, k \in CondKinds, s \in Offs, iid \in IidModes :
                   /\ dd % 10 = dw
                   /\ (iid => N = CHOOSE x \in Ns : TRUE)      \* one constructor step per (kind, dims) in i.i.d. mode
                   /\ ANewCond(k, "S", IF IsIdCond(k) THEN "none" ELSE "given", dd \div 10, dd % 10, IF iid THEN 1 ELSE N, s, s)
    \/ n = 2 /\ \E r \in Routes, N \in Ns :
                   /\ (r = "joint" => heap[2].cls = "Cond")
                   /\ (CR(heap[2]) > 1 => N = CR(heap[2]))
                   /\ Marker(r, N)
    \/ n >= 3 /\ route = "seq" /\ SeqStep
    \/ n >= 3 /\ route = "factor" /\ FactorStep
    \/ n >= 3 /\ route = "joint" /\ JointStep

StaticDone ==
    /\ n >= 3
    /\ CASE route = "seq" -> n = 3 + 5 * NObs
         [] route = "factor" -> n = 8
         [] route = "joint" -> n = 3 + 2 * NObs + 4

\* the reference, from the semantic layer only
RefU == LET f == SetY(CC, MkSeq(NObs, LAMBDA k : QV(Ydata[k]))) IN Multiply(prior, Product(f), FALSE)
Inv_Static ==
    (Mode = "static" /\ StaticDone) =>
      LET u == RefU T == Truth(u, 1) evRef == LnMass(u, 1) IN
      CASE route = "seq" ->
             LET post == heap[Len(heap)]
                 ev == LNSumTo([k \in 1..NObs |-> hist[SeqBase(k) + 3].ret.ln[1][1]], NObs)
             IN VEq(post.mu[1], T.mu) /\ MEq(post.Sig[1], T.Sig) /\ LNEq(ev, evRef)
        [] route = "factor" ->
             LET post == heap[Len(heap)] IN
             VEq(post.mu[1], T.mu) /\ MEq(post.Sig[1], T.Sig) /\ LNEq(hist[7].ret.ln[1], evRef)
        [] route = "joint" ->
             LET post == heap[2 + 2 * NObs + 2] IN
             VEq(post.mu[1], T.mu) /\ MEq(post.Sig[1], T.Sig) /\ LNEq(hist[n].ret.ln[1][1], evRef)

\* ---------------------------------------------------------------- kalman
\* heap: 1 = p0, 2 = transition, 3 = observation; step t occupies hist[4 + 5(t-1) .. 8 + 5(t-1)]:
\* predict (marginal T), py (marginal T), evaluate, conditional T, condition_on_x
KBase(t) == 3 + 5 * (t - 1)
FiltId(t) == IF t = 1 THEN 1 ELSE hist[KBase(t)].id
dxK == NumD(heap[1])
dyK == CDy(heap[3])
YK(t) == PointMenu(dyK)[((t + 1) % Len(PointMenu(dyK))) + 1]

KalmanStep(T) ==
    LET ph == (n - 3) % 5
        t  == ((n - 3) \div 5) + 1
        b  == Len(heap)
    IN /\ t <= T
       /\ CASE ph = 0 -> ATransform("marginal", 2, FiltId(t))
            [] ph = 1 -> ATransform("marginal", 3, b)
            [] ph = 2 -> AEvaluateQ(b, <<YK(t)>>, FALSE, "evaluate_ln")
            [] ph = 3 -> ATransform("conditional", 3, b - 1)
            [] ph = 4 -> ACondOnXQ(b, <<YK(t)>>)

KalmanNext ==
    \/ n = 0 /\ \E dd \in Dims, s \in Offs : ANewPdf("PDF", "S", dd % 10, 1, s)
    \/ n = 1 /\ \E k \in CondKinds \cap {"Cond", "CondId"}, s \in Offs :
                   ANewCond(k, "S", IF IsIdCond(k) THEN "none" ELSE "given", dxK, dxK, 1, s, s)
    \/ n = 2 /\ \E dd \in Dims, s \in Offs : dd % 10 = dxK /\ ANewCond("Cond", "S", "given", dd \div 10, dxK, 1, s + 1, s + 1)
    \/ n >= 3 /\ \E T \in Ns : KalmanStep(T) /\ T = CHOOSE x \in Ns : TRUE

KT == CHOOSE x \in Ns : TRUE
KalmanDone == n = 3 + 5 * KT

\* dense joint over z = (x_0, x_1, y_1, ..., x_T, y_T), assembled with the semantic Joint and zero-padded conditionals
PadCond(c, dxTot, offset) ==
    MkCond("Cond", <<MkMat(CDy(c), dxTot, LAMBDA a, b : IF b > offset /\ b <= offset + CDx(c) THEN c.M[1][a][b - offset] ELSE 0)>>,
           c.b, c.Sig, c.Lam, c.dSig)
RECURSIVE Dense(_)
Dense(t) ==
    IF t = 0 THEN heap[1]
    ELSE LET J0 == Dense(t - 1)
             D0 == NumD(J0)
             xoff == IF t = 1 THEN 0 ELSE D0 - dyK - dxK     \* x_{t-1} starts here
             J1 == Joint(PadCond(heap[2], D0, xoff), J0)     \* appends x_t
             J2 == Joint(PadCond(heap[3], D0 + dxK, D0), J1) \* appends y_t
         IN J2
XDimsK(t) == LET base == dxK + (t - 1) * (dxK + dyK) IN [a \in 1..dxK |-> base + a]
YDimsK(T) == [a \in 1..(T * dyK) |-> dxK + ((a - 1) \div dyK) * (dxK + dyK) + dxK + ((a - 1) % dyK) + 1]
YCatK(T) == MkVec(T * dyK, LAMBDA a : QV(YK(((a - 1) \div dyK) + 1))[((a - 1) % dyK) + 1])

Inv_Kalman ==
    (Mode = "kalman" /\ KalmanDone) =>
      LET T == KT
          J == Dense(T)
          ydims == YDimsK(T)
          xy == Marginal(J, XDimsK(T) \o ydims)
          cond == ConditionOnExplicit(xy, [a \in 1..Len(ydims) |-> dxK + a], [a \in 1..dxK |-> a])
          ref == CondOnX(cond, <<YCatK(T)>>)
          evRef == EvalLn(Marginal(J, ydims), 1, YCatK(T))
          filt == heap[Len(heap)]
          ev == LNSumTo([t \in 1..T |-> hist[KBase(t) + 3].ret.ln[1][1]], T)
      IN VEq(filt.mu[1], ref.mu[1]) /\ MEq(filt.Sig[1], ref.Sig[1]) /\ LNEq(ev, evRef)

Next == IF Mode = "static" THEN StaticNext ELSE KalmanNext
Done == IF Mode = "static" THEN StaticDone ELSE KalmanDone
Inv_Export == Export(Done)
=============================================================================
