--------------------------------- MODULE GT ---------------------------------
(***************************************************************************)
(* The library as a session state machine.                                 *)
(*                                                                         *)
(*   heap : sequence of live objects (append-only; mutating calls rewrite  *)
(*          an entry in place) - the abstract state of a Python session.   *)
(*   hist : the sequence of public calls made so far, each with its exact  *)
(*          arguments and the exact expected observables.  It is a         *)
(*          history variable: it makes every behaviour a distinct path and *)
(*          is what the exporter prints for the replay harness (B1).       *)
(*                                                                         *)
(* One action per public call.  The linearization point of a call in this  *)
(* sequential library is its return.  MC_* modules instantiate the menus   *)
(* and compose the actions into bounded scenarios / sessions.              *)
(***************************************************************************)
EXTENDS Approx, Json

VARIABLES heap, hist
vars == <<heap, hist>>

NoObj == <<>>

\* ------------------------------------------------------------------------
\* Expected observables of an object: always the TRUE values, derived from
\* the defining parameters only.  (The stored caches of the spec object are
\* proved equal to them by Inv_CacheCoherent; the code's caches are compared
\* with them by the replay harness whenever the code object exposes them.)
\* In these records every integer is a field element, except under key k.
\* ------------------------------------------------------------------------
ExpectCond(c) ==
    LET R == CR(c) ID == MkSeq(R, LAMBDA i : InvDet(c.Sig[i])) IN
    [cls |-> c.cls, M |-> c.M, b |-> c.b, Sig |-> c.Sig,
     Lam |-> MkSeq(R, LAMBDA i : ID[i].inv), dSig |-> MkSeq(R, LAMBDA i : ID[i].det)]

ExpectObj(o) ==
    IF IsCond(o) THEN ExpectCond(o) ELSE
    IF IsMeasure(o)
    THEN LET R == NumR(o)
             T == MkSeq(R, LAMBDA i : Truth(o, i))
         IN [cls |-> o.cls, Lam |-> o.Lam, nu |-> o.nu, lnb |-> o.lnb,
             Sig |-> MkSeq(R, LAMBDA i : T[i].Sig), dSig |-> MkSeq(R, LAMBDA i : T[i].dSig),
             mu |-> MkSeq(R, LAMBDA i : T[i].mu), lnZ |-> MkSeq(R, LAMBDA i : T[i].lnZ),
             cS |-> o.cS, cZ |-> o.cZ, cM |-> o.cM]
    ELSE IF o.cls = "Rank1"
         THEN [cls |-> o.cls, Lam |-> o.Lam, nu |-> o.nu, lnb |-> o.lnb, v |-> o.v, g |-> o.g]
         ELSE [cls |-> o.cls, Lam |-> o.Lam, nu |-> o.nu, lnb |-> o.lnb]

Step(act, a, f, id, o, mid, mo, ret) ==
    [act |-> act, a |-> a, f |-> f, id |-> id, o |-> o, mid |-> mid, mo |-> mo, ret |-> ret]

Emit(newheap, step) == heap' = newheap /\ hist' = Append(hist, step)

NextId == Len(heap) + 1
Put(i, o) == [heap EXCEPT ![i] = o]

\* ------------------------------------------------------------------------
\* Constructors
\* ------------------------------------------------------------------------
\* om: the optional constructor arguments that are OMITTED in the call (subset of {"nu", "ln_beta", "g"}); the documented
\* defaults are nu = 0, ln_beta = 0, g = 1
OmitSeq(om) == SelectSeq(<<"g", "ln_beta", "nu">>, LAMBDA x : x \in om)
ANewMeasureO(cls, d, R, s, om) ==
    LET qL == Pick(IF cls = "DiagMeasure" THEN DPDm(d, s) ELSE SPDm(d, s), R, s)
        qn == Pick(VEC(d), R, s)
        qb == Pick(LNB, R, s)
        o  == MkObj(cls, MkSeq(R, LAMBDA i : QM(qL[i])),
                    MkSeq(R, LAMBDA i : IF "nu" \in om THEN ZeroVec(d) ELSE QV(qn[i])),
                    MkSeq(R, LAMBDA i : IF "ln_beta" \in om THEN LNQ(0) ELSE LNQ(QS(qb[i]))))
    IN /\ om \subseteq {"nu", "ln_beta"}
       /\ Emit(Append(heap, o),
               Step("NewMeasure", [cls |-> cls, Lambda |-> qL, nu |-> qn, ln_beta |-> qb, omit |-> OmitSeq(om)], NoObj,
                    NextId, ExpectObj(o), 0, NoObj, NoObj))
ANewMeasure(cls, d, R, s) == ANewMeasureO(cls, d, R, s, {})

ANewPdf(cls, mode, d, R, s) ==
    LET qS == Pick(IF cls = "DiagPDF" THEN DPDm(d, s) ELSE SPDm(d, s), R, s + 1)
        qm == Pick(VEC(d), R, s + 1)
        Sg == MkSeq(R, LAMBDA i : QM(qS[i]))
        ID == MkSeq(R, LAMBDA i : InvDet(Sg[i]))
        Li == MkSeq(R, LAMBDA i : ID[i].inv)
        dS == MkSeq(R, LAMBDA i : ID[i].det)
        o  == NewPdfGen(cls, mode, Sg, MkSeq(R, LAMBDA i : QV(qm[i])), Li, dS)
    IN Emit(Append(heap, o),
            Step("NewPdf", [cls |-> cls, mode |-> mode, Sigma |-> qS, mu |-> qm],
                 [Lambda |-> Li, dSig |-> dS],
                 NextId, ExpectObj(o), 0, NoObj, NoObj))

\* exact mode of C03: integer covariance and mean (every polynomial moment is an integer)
SPDINT(d) ==
    CASE d = 1 -> << Q(<<<<2>>>>, 1), Q(<<<<1>>>>, 1), Q(<<<<3>>>>, 1) >>
      [] d = 2 -> << Q(<< <<2, 1>>, <<1, 2>> >>, 1), Q(<< <<3, -1>>, <<-1, 1>> >>, 1), Q(<< <<5, 2>>, <<2, 1>> >>, 1) >>
      [] d = 3 -> << Q(<< <<2, 1, 0>>, <<1, 2, 1>>, <<0, 1, 2>> >>, 1), Q(<< <<3, -1, 1>>, <<-1, 2, 0>>, <<1, 0, 1>> >>, 1),
                     Q(<< <<2, 0, 1>>, <<0, 1, 0>>, <<1, 0, 3>> >>, 1) >>
      [] d = 4 -> << Q(<< <<2, 1, 0, 0>>, <<1, 2, 1, 0>>, <<0, 1, 2, 1>>, <<0, 0, 1, 2>> >>, 1),
                     Q(<< <<3, -1, 1, 0>>, <<-1, 2, 0, 1>>, <<1, 0, 2, 0>>, <<0, 1, 0, 2>> >>, 1),
                     Q(<< <<4, 1, 0, -1>>, <<1, 3, 1, 0>>, <<0, 1, 2, 0>>, <<-1, 0, 0, 1>> >>, 1) >>
VECINT(d) ==
    CASE d = 1 -> << Q(<<1>>, 1), Q(<<-2>>, 1), Q(<<3>>, 1) >>
      [] d = 2 -> << Q(<<1, -1>>, 1), Q(<<-2, 3>>, 1), Q(<<0, 2>>, 1) >>
      [] d = 3 -> << Q(<<1, -1, 2>>, 1), Q(<<-2, 3, 1>>, 1), Q(<<0, 2, -1>>, 1) >>
      [] d = 4 -> << Q(<<1, -1, 2, 0>>, 1), Q(<<-2, 3, 1, 1>>, 1), Q(<<0, 2, -1, 3>>, 1) >>

ANewPdfInt(d, R, s) ==
    LET qS == Pick(SPDINT(d), R, s)
        qm == Pick(VECINT(d), R, s)
        o  == NewPdf(MkSeq(R, LAMBDA i : QM(qS[i])), MkSeq(R, LAMBDA i : QV(qm[i])))
    IN Emit(Append(heap, o),
            Step("NewPdf", [cls |-> "PDF", mode |-> "S", Sigma |-> qS, mu |-> qm, exact |-> TRUE], NoObj,
                 NextId, ExpectObj(o), 0, NoObj, NoObj))

FactorOptional(cls) == CASE cls = "Factor" -> {"nu", "ln_beta"} [] cls = "Rank1" -> {"nu", "ln_beta", "g"}
                         [] cls = "Linear" -> {"ln_beta"} [] cls = "Const" -> {}
ANewFactorO(cls, d, R, s, om) ==
    LET qL == Pick(SPDm(d, s), R, s + 2)
        qn == Pick(VEC(d), R, s + 1)
        qb == Pick(LNB, R, s + 1)
        qv == Pick(VEC2(d), R, s)
        qg == Pick(POS, R, s)
        nu == MkSeq(R, LAMBDA i : IF "nu" \in om THEN ZeroVec(d) ELSE QV(qn[i]))
        lb == MkSeq(R, LAMBDA i : IF "ln_beta" \in om THEN LNQ(0) ELSE LNQ(QS(qb[i])))
        o  == CASE cls = "Factor" -> NewFactor(MkSeq(R, LAMBDA i : QM(qL[i])), nu, lb)
                [] cls = "Rank1"  -> NewRank1(MkSeq(R, LAMBDA i : QV(qv[i])), MkSeq(R, LAMBDA i : IF "g" \in om THEN 1 ELSE QS(qg[i])), nu, lb)
                [] cls = "Linear" -> NewLinear(nu, lb)
                [] cls = "Const"  -> NewConst(lb, d)
        a  == CASE cls = "Factor" -> [cls |-> cls, Lambda |-> qL, nu |-> qn, ln_beta |-> qb, omit |-> OmitSeq(om)]
                [] cls = "Rank1"  -> [cls |-> cls, v |-> qv, g |-> qg, nu |-> qn, ln_beta |-> qb, omit |-> OmitSeq(om)]
                [] cls = "Linear" -> [cls |-> cls, nu |-> qn, ln_beta |-> qb, omit |-> OmitSeq(om)]
                [] cls = "Const"  -> [cls |-> cls, ln_beta |-> qb, num_dim |-> d, omit |-> OmitSeq(om)]
    IN /\ om \subseteq FactorOptional(cls)
       /\ Emit(Append(heap, o), Step("NewFactor", a, NoObj, NextId, ExpectObj(o), 0, NoObj, NoObj))
ANewFactor(cls, d, R, s) == ANewFactorO(cls, d, R, s, {})

\* constructors from explicitly given exact records (used by the trace specification, where the arguments come from
\* a recorded execution instead of a menu)
ANewMeasureExplicit(cls, qL, qn, qb) ==
    LET R == Len(qL)
        o == MkObj(cls, MkSeq(R, LAMBDA i : QM(qL[i])), MkSeq(R, LAMBDA i : QV(qn[i])), MkSeq(R, LAMBDA i : LNQ(QS(qb[i]))))
    IN Emit(Append(heap, o),
            Step("NewMeasure", [cls |-> cls, Lambda |-> qL, nu |-> qn, ln_beta |-> qb], NoObj, NextId, ExpectObj(o), 0, NoObj, NoObj))

ANewFactorExplicit(cls, qL, qv, qg, qn, qb, d) ==
    LET R == Len(qb)
        nu == MkSeq(R, LAMBDA i : QV(qn[i]))
        lb == MkSeq(R, LAMBDA i : LNQ(QS(qb[i])))
        o  == CASE cls = "Factor" -> NewFactor(MkSeq(R, LAMBDA i : QM(qL[i])), nu, lb)
                [] cls = "Rank1"  -> NewRank1(MkSeq(R, LAMBDA i : QV(qv[i])), MkSeq(R, LAMBDA i : QS(qg[i])), nu, lb)
                [] cls = "Linear" -> NewLinear(nu, lb)
                [] cls = "Const"  -> NewConst(lb, d)
        a  == CASE cls = "Factor" -> [cls |-> cls, Lambda |-> qL, nu |-> qn, ln_beta |-> qb]
                [] cls = "Rank1"  -> [cls |-> cls, v |-> qv, g |-> qg, nu |-> qn, ln_beta |-> qb]
                [] cls = "Linear" -> [cls |-> cls, nu |-> qn, ln_beta |-> qb]
                [] cls = "Const"  -> [cls |-> cls, ln_beta |-> qb, num_dim |-> d]
    IN Emit(Append(heap, o), Step("NewFactor", a, NoObj, NextId, ExpectObj(o), 0, NoObj, NoObj))

AUpdateSigmaExplicit(i, qS) ==
    LET c == heap[i] c1 == UpdateSigma(c, MkSeq(Len(qS), LAMBDA k : QM(qS[k]))) IN
    /\ IsCond(c) /\ Len(qS) = CR(c)
    /\ Emit(Put(i, c1), Step("UpdateSigma", [i |-> i, Sigma |-> qS], NoObj, 0, NoObj, i, ExpectObj(c1), NoObj))

\* ------------------------------------------------------------------------
\* Read-only-looking queries that fill caches in place
\* ------------------------------------------------------------------------
MassQueries == {"integral", "integral_light", "log_integral", "log_integral_light", "integrate1"}

AQuery(i, q) ==
    LET o  == heap[i]
        o1 == IF q \in {"integral_light", "log_integral_light"} THEN AfterLogIntegralLight(o)
              ELSE AfterLogIntegral(o)
    IN /\ IsMeasure(o)
       /\ Emit(Put(i, o1),
               Step("Query", [i |-> i, q |-> q], NoObj, 0, NoObj, 0, NoObj,
                    [ln |-> MkSeq(NumR(o), LAMBDA r : LnMass(o, r))]))

\* compute_lnZ / compute_mu / invert_lambda called directly (public methods)
ACompute(i, what) ==
    LET o  == heap[i]
        o1 == CASE what = "compute_lnZ" -> ComputeLnZ(o)
                [] what = "compute_mu" -> ComputeMu(o)
                [] what = "invert_lambda" -> InvertLambda(o)
    IN /\ IsMeasure(o)
       /\ Emit(Put(i, o1), Step("Compute", [i |-> i, what |-> what], NoObj, 0, NoObj, 0, NoObj, NoObj))

ANormalize(i) ==
    LET o == heap[i] o1 == Normalize(o) IN
    /\ IsMeasure(o)
    /\ Emit(Put(i, o1), Step("Normalize", [i |-> i], NoObj, 0, NoObj, i, ExpectObj(o1), NoObj))

AGetDensity(i) ==
    LET o == heap[i] o1 == AfterGetDensity(o) p == GetDensity(o) IN
    /\ IsMeasure(o)
    /\ Emit(Append(Put(i, o1), p), Step("GetDensity", [i |-> i], NoObj, NextId, ExpectObj(p), 0, NoObj, NoObj))

\* ------------------------------------------------------------------------
\* Algebra
\* ------------------------------------------------------------------------
\* idx: sequence of 1-based positions; the code is called with 0-based (or negative) indices: codeIdx
ASlice(i, idx, codeIdx) ==
    LET o == heap[i] n == Slice(o, idx) IN
    Emit(Append(heap, n), Step("Slice", [i |-> i, idx |-> codeIdx], NoObj, NextId, ExpectObj(n), 0, NoObj, NoObj))

AProduct(i) ==
    LET o == heap[i] n == Product(o) IN
    Emit(Append(heap, n), Step("Product", [i |-> i], NoObj, NextId, ExpectObj(n), 0, NoObj, NoObj))

\* via in {"multiply", "mul"}: u.multiply(f, update_full=full) or u * f (full must be FALSE)
AMultiply(i, j, full, via) ==
    LET u == heap[i] f == heap[j] n == Multiply(u, f, full) IN
    /\ IsMeasure(u) /\ NumD(u) = NumD(f)
    /\ via = "mul" => ~full
    /\ Emit(Append(heap, n),
            Step("Multiply", [i |-> i, j |-> j, full |-> full, via |-> via, path |-> MultiplyPath(u, f, full)],
                 NoObj, NextId, ExpectObj(n), 0, NoObj, NoObj))

AHadamard(i, j, full) ==
    LET u == heap[i] f == heap[j] n == Hadamard(u, f, full) IN
    /\ IsMeasure(u) /\ NumD(u) = NumD(f) /\ HadamardOK(u, f)
    /\ Emit(Append(heap, n),
            Step("Hadamard", [i |-> i, j |-> j, full |-> full, path |-> MultiplyPath(u, f, full)],
                 NoObj, NextId, ExpectObj(n), 0, NoObj, NoObj))

\* evaluate_ln / evaluate / __call__ at the points X (sequence of integer points).
\* elementwise: X must have exactly R points, point r is paired with component r.
AEvaluate(i, X, elementwise, via) ==
    LET o == heap[i] R == NumR(o) IN
    /\ elementwise => Len(X) = R
    /\ Emit(heap,
            Step("Evaluate", [i |-> i, x |-> X, elementwise |-> elementwise, via |-> via], NoObj, 0, NoObj, 0, NoObj,
                 [ln |-> IF elementwise THEN MkSeq(R, LAMBDA r : EvalLn(o, r, X[r]))
                         ELSE MkSeq(R, LAMBDA r : MkSeq(Len(X), LAMBDA n : EvalLn(o, r, X[n])))]))

\* ------------------------------------------------------------------------
\* Densities
\* ------------------------------------------------------------------------
\* coordinate sequences are 1-based in the specification; the code is called with idx - 1
Minus1(s) == [k \in 1..Len(s) |-> s[k] - 1]

AMarginal(i, dims) ==
    LET p == heap[i] n == Marginal(p, dims) IN
    /\ IsPdf(p)
    /\ Emit(Append(heap, n), Step("Marginal", [i |-> i, dims |-> Minus1(dims)], NoObj, NextId, ExpectObj(n), 0, NoObj, NoObj))

\* W, b: exact menu records per component; bmode in {"none", "given"}
ALinearSum(i, qW, qb, bmode) ==
    LET p == heap[i] R == NumR(p)
        W == MkSeq(R, LAMBDA r : QM(qW[r]))
        \* bmode "big": the offset a million times larger than the spread of Wx (formulations that subtract large
        \* second moments cancel catastrophically; the law N(W mu + b, W Sigma W') does not depend on the size of b)
        qb1 == IF bmode = "big" THEN [r \in DOMAIN qb |-> Q([a \in DOMAIN qb[r].n |-> 1000000 * qb[r].n[a]], qb[r].d)] ELSE qb
        b == MkSeq(R, LAMBDA r : IF bmode = "none" THEN ZeroVec(Rows(W[r])) ELSE QV(qb1[r]))
        n == LinearSum(p, W, b)
    IN /\ IsPdf(p)
       /\ Emit(Append(heap, n), Step("LinearSum", [i |-> i, W |-> qW, b |-> qb1, bmode |-> bmode], NoObj,
                                     NextId, ExpectObj(n), 0, NoObj, NoObj))

AEntropy(i) ==
    LET p == heap[i] IN
    /\ IsPdf(p)
    /\ Emit(heap, Step("Entropy", [i |-> i], NoObj, 0, NoObj, 0, NoObj,
                       [ln |-> MkSeq(NumR(p), LAMBDA r : EntropySem(p, r))]))

\* p.kl_divergence(q): R_p = R_q, or one of them 1 (broadcast)
AKL(i, j) ==
    LET p == heap[i] q == heap[j] R1 == NumR(p) R2 == NumR(q) IN
    /\ IsPdf(p) /\ IsPdf(q) /\ NumD(p) = NumD(q)
    /\ R1 = R2 \/ R1 = 1 \/ R2 = 1
    /\ Emit(heap, Step("KL", [i |-> i, j |-> j], NoObj, 0, NoObj, 0, NoObj,
                       [ln |-> MkSeq(Max(R1, R2), LAMBDA k :
                                  KLSem(p, IF R1 = 1 THEN 1 ELSE k, q, IF R2 = 1 THEN 1 ELSE k))]))

\* neg: the positions of idx that are passed to the code as negative (from-the-end) indices
AUpdateN(i, idx, j, neg) ==
    LET p == heap[i] q == heap[j] p1 == Update(p, idx, q)
        idx0 == [k \in 1..Len(idx) |-> IF k \in neg THEN idx[k] - 1 - NumR(p) ELSE idx[k] - 1]
    IN
    /\ IsPdf(p) /\ IsPdf(q) /\ NumD(p) = NumD(q) /\ Len(idx) = NumR(q)
    /\ Emit(Put(i, p1), Step("Update", [i |-> i, idx |-> idx0, j |-> j], NoObj, 0, NoObj, i, ExpectObj(p1), NoObj))
AUpdate(i, idx, j) == AUpdateN(i, idx, j, {})

AConditionOn(i, dy) ==
    LET p == heap[i] c == ConditionOn(p, dy) IN
    /\ IsPdf(p)
    /\ Emit(Append(heap, c), Step("ConditionOn", [i |-> i, dy |-> Minus1(dy)], NoObj, NextId, ExpectObj(c), 0, NoObj, NoObj))

AConditionOnExplicit(i, dy, dx) ==
    LET p == heap[i] c == ConditionOnExplicit(p, dy, dx) IN
    /\ IsPdf(p)
    /\ Emit(Append(heap, c), Step("ConditionOnExplicit", [i |-> i, dy |-> Minus1(dy), dx |-> Minus1(dx)], NoObj,
                                  NextId, ExpectObj(c), 0, NoObj, NoObj))

\* ------------------------------------------------------------------------
\* Linear-Gaussian conditionals
\* ------------------------------------------------------------------------
\* M menu: integer matrices [dy x dx], distinct per component, asymmetric
MMenu(dy, dx) ==
    << Q([a \in 1..dy |-> [b \in 1..dx |-> IF a = b THEN 2 ELSE IF a < b THEN 1 ELSE -1]], 1),
       Q([a \in 1..dy |-> [b \in 1..dx |-> IF a = b THEN 1 ELSE IF a < b THEN -2 ELSE 1]], 2),
       Q([a \in 1..dy |-> [b \in 1..dx |-> IF a + b = 3 THEN 3 ELSE IF a < b THEN 1 ELSE 2]], 3),
       Q([a \in 1..dy |-> [b \in 1..dx |-> 0]], 1) >>

\* cls in CondClasses; mode in {"S", "L", "SLD"}; bmode in {"none", "given"} (b omitted -> zeros); m0: offset into MMenu
ANewCond(cls, mode, bmode, dy, dx, R, s, m0) ==
    LET isId == IsIdCond(cls)
        qM == Pick(MMenu(dy, dx), R, m0)
        qb == Pick(VEC2(dy), R, s)
        qS == Pick(IF IsDiagCond(cls) THEN DPDm(dy, s) ELSE SPDm(dy, s), R, s)
        M  == MkSeq(R, LAMBDA i : IF isId THEN Eye(dy) ELSE QM(qM[i]))
        b  == MkSeq(R, LAMBDA i : IF isId \/ bmode = "none" THEN ZeroVec(dy) ELSE QV(qb[i]))
        Mat == MkSeq(R, LAMBDA i : QM(qS[i]))       \* Sigma (modes S, SLD) or Lambda (mode L)
        ID == MkSeq(R, LAMBDA i : InvDet(Mat[i]))
        c  == NewCond(cls, mode, M, b, Mat, MkSeq(R, LAMBDA i : ID[i].inv), MkSeq(R, LAMBDA i : ID[i].det))
    IN /\ isId => dy = dx
       /\ Emit(Append(heap, c),
               Step("NewCond", [cls |-> cls, mode |-> mode, bmode |-> bmode, M |-> qM, b |-> qb, Mat |-> qS],
                    [Lambda |-> MkSeq(R, LAMBDA i : ID[i].inv), dSig |-> MkSeq(R, LAMBDA i : ID[i].det)],
                    NextId, ExpectObj(c), 0, NoObj, NoObj))

\* a full-class conditional from explicitly given exact records (one per component)
ANewCondExplicit(qM, qb, qS) ==
    LET R == Len(qM)
        c == NewCond("Cond", "S", MkSeq(R, LAMBDA i : QM(qM[i])), MkSeq(R, LAMBDA i : QV(qb[i])),
                     MkSeq(R, LAMBDA i : QM(qS[i])), <<>>, <<>>)
    IN Emit(Append(heap, c),
            Step("NewCond", [cls |-> "Cond", mode |-> "S", bmode |-> "given", M |-> qM, b |-> qb, Mat |-> qS],
                 NoObj, NextId, ExpectObj(c), 0, NoObj, NoObj))

\* a density from explicitly given exact records
ANewPdfExplicit(qS, qm) ==
    LET R == Len(qS)
        o == NewPdf(MkSeq(R, LAMBDA i : QM(qS[i])), MkSeq(R, LAMBDA i : QV(qm[i])))
    IN Emit(Append(heap, o),
            Step("NewPdf", [cls |-> "PDF", mode |-> "S", Sigma |-> qS, mu |-> qm], NoObj, NextId, ExpectObj(o), 0, NoObj, NoObj))

\* evaluate at explicitly given exact points (menu records)
AEvaluateQ(i, qX, elementwise, via) ==
    LET o == heap[i] R == NumR(o) X == MkSeq(Len(qX), LAMBDA k : QV(qX[k])) IN
    /\ elementwise => Len(qX) = R
    /\ Emit(heap,
            Step("EvaluateQ", [i |-> i, x |-> qX, elementwise |-> elementwise, via |-> via], NoObj, 0, NoObj, 0, NoObj,
                 [ln |-> IF elementwise THEN MkSeq(R, LAMBDA r : EvalLn(o, r, X[r]))
                         ELSE MkSeq(R, LAMBDA r : MkSeq(Len(X), LAMBDA k : EvalLn(o, r, X[k])))]))

\* condition_on_x at explicitly given exact points
ACondOnXQ(i, qX) ==
    LET c == heap[i] n == CondOnX(c, MkSeq(Len(qX), LAMBDA k : QV(qX[k]))) IN
    /\ IsCond(c)
    /\ Emit(Append(heap, n), Step("CondOnX", [i |-> i, x |-> qX, via |-> "condition_on_x"], NoObj, NextId, ExpectObj(n), 0, NoObj, NoObj))

ASetYQ(i, qY) ==
    LET c == heap[i] n == SetY(c, MkSeq(Len(qY), LAMBDA k : QV(qY[k]))) IN
    /\ IsCond(c) /\ (CR(c) = 1 \/ CR(c) = Len(qY))
    /\ Emit(Append(heap, n), Step("SetY", [i |-> i, y |-> qY], NoObj, NextId, ExpectObj(n), 0, NoObj, NoObj))

ACondSlice(i, idx, codeIdx) ==
    LET c == heap[i] n == CondSlice(c, idx) IN
    /\ IsCond(c)
    /\ Emit(Append(heap, n), Step("Slice", [i |-> i, idx |-> codeIdx], NoObj, NextId, ExpectObj(n), 0, NoObj, NoObj))

\* points / observations: integer vectors from the second vector menu (exact)
PointMenu(d) == VEC2(d)
\* the same points 64 times further out (data offsets s >= 10): observations tens of standard deviations away from the
\* model (log-densities of -1e3 .. -1e4: floors / clamps on log-normalisers, overflow guards)
FarMenu(d) == [i \in DOMAIN VEC2(d) |-> Q([a \in 1..d |-> 64 * VEC2(d)[i].n[a]], VEC2(d)[i].d)]
DataMenu(d, s) == IF s >= 10 THEN FarMenu(d) ELSE PointMenu(d)

ACondOnX(i, N, s, via) ==
    LET c == heap[i] qX == Pick(DataMenu(CDx(c), s), N, s)
        n == CondOnX(c, MkSeq(N, LAMBDA k : QV(qX[k])))
    IN /\ IsCond(c)
       /\ Emit(Append(heap, n), Step("CondOnX", [i |-> i, x |-> qX, via |-> via], NoObj, NextId, ExpectObj(n), 0, NoObj, NoObj))

ASetY(i, N, s) ==
    LET c == heap[i] qY == Pick(DataMenu(CDy(c), s), N, s)
        n == SetY(c, MkSeq(N, LAMBDA k : QV(qY[k])))
    IN /\ IsCond(c) /\ (CR(c) = 1 \/ CR(c) = N)
       /\ Emit(Append(heap, n), Step("SetY", [i |-> i, y |-> qY], NoObj, NextId, ExpectObj(n), 0, NoObj, NoObj))

ATransform(kind, i, j) ==
    LET c == heap[i] p == heap[j]
        n == CASE kind = "joint" -> Joint(c, p) [] kind = "marginal" -> MarginalT(c, p) [] kind = "conditional" -> CondT(c, p)
    IN /\ IsCond(c) /\ IsPdf(p) /\ CDx(c) = NumD(p) /\ TransformOK(c, p)
       /\ Emit(Append(heap, n), Step("Transform", [kind |-> kind, i |-> i, j |-> j], NoObj, NextId, ExpectObj(n), 0, NoObj, NoObj))

\* the documented refusal: a batch on both sides
ATransformRefused(kind, i, j) ==
    LET c == heap[i] p == heap[j] IN
    /\ IsCond(c) /\ IsPdf(p) /\ CDx(c) = NumD(p) /\ ~TransformOK(c, p)
    /\ Emit(heap, Step("Transform", [kind |-> kind, i |-> i, j |-> j, raises |-> "RuntimeError"], NoObj, 0, NoObj, 0, NoObj, NoObj))

\* c.integrate_log_conditional(q): q a density over (y, x); R_c = 1 or R_c = R_q
AIntLogCond(i, j) ==
    LET c == heap[i] q == heap[j] Rn == NumR(q) IN
    /\ IsCond(c) /\ IsPdf(q) /\ NumD(q) = CDx(c) + CDy(c) /\ (CR(c) = 1 \/ CR(c) = Rn)
    /\ IF IsIdCond(c.cls) /\ CR(c) # 1      \* documented: the identity-mean classes implement R = 1 only
       THEN Emit(heap, Step("IntLogCond", [i |-> i, j |-> j, raises |-> "NotImplementedError"], NoObj, 0, NoObj, 0, NoObj, NoObj))
       ELSE Emit(heap, Step("IntLogCond", [i |-> i, j |-> j], NoObj, 0, NoObj, 0, NoObj,
                       [ln |-> MkSeq(Rn, LAMBDA k : IntLogCond(c, IF CR(c) = 1 THEN 1 ELSE k, q, k))]))

\* c.integrate_log_conditional_y(p)(Y) or (p, y=Y); the R_p components are paired with the R_p rows of Y
AIntLogCondY(i, j, s, via) ==
    LET c == heap[i] p == heap[j] Rn == NumR(p)
        qY == Pick(PointMenu(CDy(c)), Rn, s)
    IN /\ IsCond(c) /\ IsPdf(p) /\ NumD(p) = CDx(c) /\ CR(c) = 1
       /\ Emit(heap, Step("IntLogCondY", [i |-> i, j |-> j, y |-> qY, via |-> via], NoObj, 0, NoObj, 0, NoObj,
                          [ln |-> MkSeq(Rn, LAMBDA k : IntLogCondY(c, 1, p, k, QV(qY[k])))]))

\* The callable form in two steps: f = c.integrate_log_conditional_y(p) now, f(Y) later.  The returned function is a
\* VALUE: it denotes E_{p}[ln p(y|x)] for the p it was requested for, whatever happens to the object p afterwards
\* (a result may not alias a mutable operand).  The heap holds a "Closure" record with snapshots of c and p.
AIntLogCondYDefer(i, j) ==
    LET c == heap[i] p == heap[j] cl == [cls |-> "Closure", c |-> c, p |-> p] IN
    /\ IsCond(c) /\ IsPdf(p) /\ NumD(p) = CDx(c) /\ CR(c) = 1
    /\ Emit(Append(heap, cl), Step("IntLogCondYDefer", [i |-> i, j |-> j], NoObj, NextId, [cls |-> "Closure"], 0, NoObj, NoObj))
AApplyClosure(k, s) ==
    LET cl == heap[k] Rn == NumR(cl.p)
        qY == Pick(PointMenu(CDy(cl.c)), Rn, s)
    IN /\ cl.cls = "Closure"
       /\ Emit(heap, Step("ApplyClosure", [i |-> k, y |-> qY], NoObj, 0, NoObj, 0, NoObj,
                          [ln |-> MkSeq(Rn, LAMBDA r : IntLogCondY(cl.c, 1, cl.p, r, QV(qY[r])))]))

AInfo(kind, i, j) ==
    LET c == heap[i] p == heap[j] Rx == NumR(p) Rn == CR(c) * Rx IN
    /\ IsCond(c) /\ IsPdf(p) /\ CDx(c) = NumD(p) /\ TransformOK(c, p)
    /\ Emit(heap, Step("Info", [kind |-> kind, i |-> i, j |-> j], NoObj, 0, NoObj, 0, NoObj,
                       [ln |-> MkSeq(Rn, LAMBDA k : IF kind = "conditional_entropy" THEN CondEntropy(c, TI(k, Rx))
                                                     ELSE MutualInfo(c, TI(k, Rx), p, TJ(k, Rx)))]))

AUpdateSigma(i, s) ==
    LET c == heap[i] R == CR(c)
        qS == Pick(IF IsDiagCond(c.cls) THEN DPD(CDy(c)) ELSE SPD(CDy(c)), R, s)
        c1 == UpdateSigma(c, MkSeq(R, LAMBDA k : QM(qS[k])))
    IN /\ IsCond(c)
       /\ Emit(Put(i, c1), Step("UpdateSigma", [i |-> i, Sigma |-> qS], NoObj, 0, NoObj, i, ExpectObj(c1), NoObj))

\* ------------------------------------------------------------------------
\* NN-controlled conditional: p(y | x, u) = N(y; M(u) x + b(u), Sigma), (M(u), b(u)) = control_func(u).
\* The harness supplies an AFFINE control function u -> u Wc + w0c with exact rational Wc, w0c, so that the
\* specification can compute M(u), b(u) exactly; every operation with a control u is specified as the same
\* operation on the linear conditional set_control_variable(u).
\* ------------------------------------------------------------------------
IsNN(o) == o.cls = "CondNN"
NNWc(du, dout, s) == Q([a \in 1..du |-> [b \in 1..dout |-> ((2 * a + 3 * b + s) % 5) - 2]], 2)
NNw0(dout, s) == Q([b \in 1..dout |-> ((b + 2 * s) % 3) - 1], 1)
UMenu(du) == << Q([a \in 1..du |-> IF a = 1 THEN 1 ELSE -1], 1), Q([a \in 1..du |-> a], 2), Q([a \in 1..du |-> 2 - a], 3) >>

ANewNN(dy, dx, du, s) ==
    LET qS == SPD(dy)[(s % 4) + 1]
        qW == NNWc(du, dy * (dx + 1), s)
        qw0 == NNw0(dy * (dx + 1), s)
        Sg == QM(qS) ID == InvDet(Sg)
        c == [cls |-> "CondNN", Sig |-> <<Sg>>, Lam |-> <<ID.inv>>, dSig |-> <<ID.det>>, Wc |-> QM(qW), w0c |-> QV(qw0),
              dy |-> dy, dx |-> dx, du |-> du]
    IN Emit(Append(heap, c),
            Step("NewNN", [Sigma |-> qS, Dx |-> dx, Du |-> du, Wc |-> qW, w0c |-> qw0], NoObj, NextId,
                 [cls |-> "CondNN", Sig |-> c.Sig, Lam |-> c.Lam, dSig |-> c.dSig], 0, NoObj, NoObj))

\* set_control_variable(u): a linear conditional with one component per row of u
SetControl(c, U) ==
    LET R == Len(U)
        out(r) == VAdd(VecMat(U[r], c.Wc), c.w0c)
    IN MkCond("Cond", MkSeq(R, LAMBDA r : MkMat(c.dy, c.dx, LAMBDA a, b : out(r)[(a - 1) * c.dx + b])),
              MkSeq(R, LAMBDA r : MkVec(c.dy, LAMBDA a : out(r)[c.dy * c.dx + a])),
              MkSeq(R, LAMBDA r : c.Sig[1]), MkSeq(R, LAMBDA r : c.Lam[1]), MkSeq(R, LAMBDA r : c.dSig[1]))

ASetControl(i, qU) ==
    LET c == heap[i] n == SetControl(c, MkSeq(Len(qU), LAMBDA r : QV(qU[r]))) IN
    /\ IsNN(c)
    /\ Emit(Append(heap, n), Step("SetControl", [i |-> i, u |-> qU], NoObj, NextId, ExpectObj(n), 0, NoObj, NoObj))

\* op in {"joint", "marginal", "conditional", "set_y", "cond_on_x", "conditional_entropy", "mutual_information",
\*        "int_log_cond", "int_log_cond_y"}: the NN-controlled call with control u
ANNOp(op, i, j, qU, qPts) ==
    LET c == heap[i] U == MkSeq(Len(qU), LAMBDA r : QV(qU[r])) cu == SetControl(c, U)
        p == heap[j] Rx == IF j = 0 THEN 1 ELSE NumR(heap[j]) Rn == CR(cu) * Rx
        pts == MkSeq(Len(qPts), LAMBDA k : QV(qPts[k]))
        a == [op |-> op, i |-> i, j |-> j, u |-> qU, pts |-> qPts]
    IN /\ IsNN(c)
       /\ CASE op \in {"joint", "marginal", "conditional"} ->
                 LET n == CASE op = "joint" -> Joint(cu, p) [] op = "marginal" -> MarginalT(cu, p) [] op = "conditional" -> CondT(cu, p) IN
                 TransformOK(cu, p) /\ Emit(Append(heap, n), Step("NNOp", a, NoObj, NextId, ExpectObj(n), 0, NoObj, NoObj))
            [] op = "set_y" -> LET n == SetY(cu, pts) IN Emit(Append(heap, n), Step("NNOp", a, NoObj, NextId, ExpectObj(n), 0, NoObj, NoObj))
            [] op = "cond_on_x" -> LET n == CondOnX(cu, pts) IN Emit(Append(heap, n), Step("NNOp", a, NoObj, NextId, ExpectObj(n), 0, NoObj, NoObj))
            [] op \in {"conditional_entropy", "mutual_information"} ->
                 TransformOK(cu, p) /\
                 Emit(heap, Step("NNOp", a, NoObj, 0, NoObj, 0, NoObj,
                                 [ln |-> MkSeq(Rn, LAMBDA k : IF op = "conditional_entropy" THEN CondEntropy(cu, TI(k, Rx))
                                                               ELSE MutualInfo(cu, TI(k, Rx), p, TJ(k, Rx)))]))
            [] op = "int_log_cond" ->
                 Emit(heap, Step("NNOp", a, NoObj, 0, NoObj, 0, NoObj, [ln |-> MkSeq(NumR(p), LAMBDA k : IntLogCond(cu, 1, p, k))]))
            [] op = "int_log_cond_y" ->
                 Emit(heap, Step("NNOp", a, NoObj, 0, NoObj, 0, NoObj, [ln |-> MkSeq(NumR(p), LAMBDA k : IntLogCondY(cu, 1, p, k, pts[k]))]))

\* ------------------------------------------------------------------------
\* Polynomial integrals: integrate(key, **coefficients)
\* A coefficient spec (one per affine form) is a record
\*   [mm |-> "none" | "shared" | "per", mat |-> sequence of exact menu matrices,
\*    vm |-> "none" | "shared" | "per", vec |-> sequence of exact menu vectors]
\* "none": argument omitted (identity matrix / zero vector); "shared": one 2-D matrix / 1-D vector for all
\* components; "per": a 3-D / 2-D array with one slice per component.
\* ------------------------------------------------------------------------
EffMat(cs, r, d) == IF cs.mm = "none" THEN Eye(d) ELSE IF cs.mm = "shared" THEN QM(cs.mat[1]) ELSE QM(cs.mat[r])
EffVec(cs, r, d) ==
    IF cs.vm = "none" THEN ZeroVec(Rows(EffMat(cs, r, d)))
    ELSE IF cs.vm = "shared" THEN QV(cs.vec[1]) ELSE QV(cs.vec[r])

NoCoef == [mm |-> "none", mat |-> <<>>, vm |-> "none", vec |-> <<>>]

AIntegrate(i, key, cA, cB, cC, cD) ==
    LET o == heap[i] R == NumR(o) d == NumD(o)
        o1 == AfterLogIntegral(o)
        val(r) == LET T == Truth(o, r) IN
                  ExpectExpr(key, T.mu, T.Sig, EffMat(cA, r, d), EffVec(cA, r, d), EffMat(cB, r, d), EffVec(cB, r, d),
                             EffMat(cC, r, d), EffVec(cC, r, d), EffMat(cD, r, d), EffVec(cD, r, d))
    IN /\ IsMeasure(o)
       /\ Emit(Put(i, o1),
               Step("Integrate", [i |-> i, key |-> key, A |-> cA, B |-> cB, C |-> cC, D |-> cD], NoObj, 0, NoObj, 0, NoObj,
                    [ln |-> MkSeq(R, LAMBDA r : LnMass(o, r)), c |-> MkSeq(R, LAMBDA r : val(r))]))

\* integrate("log u(x)", factor=f): R_f = 1 or R_f = R_u
AIntegrateLogFactor(i, j) ==
    LET o == heap[i] f == heap[j] R == NumR(o)
        o1 == AfterLogIntegral(o)
        J(r) == IF NumR(f) = 1 THEN 1 ELSE r
    IN /\ IsMeasure(o) /\ NumD(o) = NumD(f) /\ (NumR(f) = 1 \/ NumR(f) = R)
       /\ Emit(Put(i, o1),
               Step("IntegrateLogFactor", [i |-> i, j |-> j], NoObj, 0, NoObj, 0, NoObj,
                    [ln |-> MkSeq(R, LAMBDA r : LnMass(o, r)),
                     c |-> MkSeq(R, LAMBDA r : LET T == Truth(o, r) IN ExpectLogFactorQ(f.Lam[J(r)], f.nu[J(r)], T.mu, T.Sig)),
                     lnc |-> MkSeq(R, LAMBDA r : f.lnb[J(r)])]))

\* ------------------------------------------------------------------------
\* Truncated one-dimensional measures (C20)
\* A truncated object: [cls |-> "Trunc" | "TruncPDF", u |-> 1-D measure record, sq |-> sequence of sqrt(lambda_r),
\*                      lo, hi |-> exact limits (menu scalars), loInf, hiInf |-> BOOLEAN]
\* ------------------------------------------------------------------------
IsTrunc(o) == o.cls \in {"Trunc", "TruncPDF"}

\* 1-D menus whose precisions are perfect squares (so that standardised limits are rational)
SQ1 == << Q(1, 1), Q(2, 1), Q(1, 2), Q(3, 2) >>          \* sqrt(lambda)
NU1 == << Q(1, 1), Q(-1, 2), Q(3, 2), Q(-2, 1) >>
LIMITS == << [lo |-> Q(-1, 1), hi |-> Q(2, 1), loInf |-> FALSE, hiInf |-> FALSE],
             [lo |-> Q(0, 1), hi |-> Q(0, 1), loInf |-> FALSE, hiInf |-> TRUE],
             [lo |-> Q(0, 1), hi |-> Q(1, 2), loInf |-> TRUE, hiInf |-> FALSE],
             [lo |-> Q(-1, 2), hi |-> Q(1, 2), loInf |-> FALSE, hiInf |-> FALSE],
             [lo |-> Q(4, 1), hi |-> Q(0, 1), loInf |-> FALSE, hiInf |-> TRUE],
             [lo |-> Q(0, 1), hi |-> Q(0, 1), loInf |-> TRUE, hiInf |-> TRUE],
             [lo |-> Q(1, 2), hi |-> Q(3, 1), loInf |-> FALSE, hiInf |-> FALSE],
             [lo |-> Q(-3, 1), hi |-> Q(-1, 2), loInf |-> FALSE, hiInf |-> FALSE] >>

\* a 1-D measure / density with square precision: kind in {"Measure", "PDF"}
ANewMeasure1D(kind, R, s) ==
    LET qs == Pick(SQ1, R, s) qn == Pick(NU1, R, s) qb == Pick(LNB, R, s)
        sq == MkSeq(R, LAMBDA i : QS(qs[i]))
        lam(i) == FMul(sq[i], sq[i])
        qL == MkSeq(R, LAMBDA i : Q(<<<<qs[i].n * qs[i].n>>>>, qs[i].d * qs[i].d))
        qv == MkSeq(R, LAMBDA i : Q(<<qn[i].n>>, qn[i].d))
        o == IF kind = "Measure"
             THEN MkObj("Measure", MkSeq(R, LAMBDA i : <<<<lam(i)>>>>), MkSeq(R, LAMBDA i : <<QS(qn[i])>>),
                        MkSeq(R, LAMBDA i : LNQ(QS(qb[i]))))
             ELSE NewPdfGen("PDF", "S", MkSeq(R, LAMBDA i : <<<<FInv(lam(i))>>>>), MkSeq(R, LAMBDA i : <<QS(qn[i])>>), <<>>, <<>>)
        \* for the density the menu "lambda" is used as 1/Sigma: Sigma = d^2/n^2
        qSg == MkSeq(R, LAMBDA i : Q(<<<<qs[i].d * qs[i].d>>>>, qs[i].n * qs[i].n))
    IN Emit(Append(heap, o),
            IF kind = "Measure"
            THEN Step("NewMeasure", [cls |-> "Measure", Lambda |-> qL, nu |-> qv, ln_beta |-> qb, sq |-> qs], NoObj,
                      NextId, ExpectObj(o), 0, NoObj, NoObj)
            ELSE Step("NewPdf", [cls |-> "PDF", mode |-> "S", Sigma |-> qSg, mu |-> qv, sq |-> qs], NoObj,
                      NextId, ExpectObj(o), 0, NoObj, NoObj))

\* sqrt(lambda) of the components of heap[i], recovered from the constructor step that created it
SqOf(i) == LET st == CHOOSE h \in {hist[k] : k \in 1..Len(hist)} : h.id = i IN MkSeq(Len(st.a.sq), LAMBDA r : QS(st.a.sq[r]))

\* limits: li = index into LIMITS; lmode "scalar": the same limits for every component, passed as Python scalars;
\* lmode "array": component r gets LIMITS[li + r - 1] (cyclic), passed as [R, 1] arrays (per-component limits)
LimOf(li, lmode, r) == IF lmode = "array" THEN LIMITS[((li + r - 2) % Len(LIMITS)) + 1] ELSE LIMITS[li]
ANewTrunc(cls, i, li, lmode) ==
    LET u == heap[i] R == NumR(u)
        lims == MkSeq(R, LAMBDA r : LimOf(li, lmode, r))
        t == [cls |-> cls, u |-> u, sq |-> SqOf(i), lims |-> lims]
    IN /\ IsMeasure(u) /\ NumD(u) = 1
       /\ Emit(Append(heap, t),
               Step("NewTrunc", [cls |-> cls, i |-> i, lims |-> lims, lmode |-> lmode], NoObj, NextId, [cls |-> cls], 0, NoObj, NoObj))

\* standardised quantities of component r of a truncated object
TrMu(t, r) == FDiv(t.u.nu[r][1], t.u.Lam[r][1][1])
TrSigma(t, r) == FInv(t.sq[r])
TrAlpha(t, r) == FMul(FSub(QS(t.lims[r].lo), TrMu(t, r)), t.sq[r])
TrBeta(t, r) == FMul(FSub(QS(t.lims[r].hi), TrMu(t, r)), t.sq[r])
TrMass(t, r) == LnMass(t.u, r)                          \* ln of the untruncated mass of the base measure
\* int_a^b x^k u_r(x) dx
TrMoment(t, r, k) == TruncMomentVal(k, TrMass(t, r), TrMu(t, r), TrSigma(t, r), t.lims[r].loInf, TrAlpha(t, r), t.lims[r].hiInf, TrBeta(t, r))
\* the same for the normalised base density (ln weight 0)
TrMoment0(t, r, k) == TruncMomentVal(k, LNZero, TrMu(t, r), TrSigma(t, r), t.lims[r].loInf, TrAlpha(t, r), t.lims[r].hiInf, TrBeta(t, r))

\* integrate("1" | "x" | "x**2" | "x**k", k)
\* Trunc:    int_a^b x^k u(x) dx                      (a Val)
\* TruncPDF: int_a^b x^k u(x) dx / int_a^b u(x) dx    (a ratio of Vals)
ATruncIntegrate(i, key, k) ==
    LET t == heap[i] R == NumR(t.u) IN
    /\ IsTrunc(t)
    /\ Emit(heap, Step("TruncIntegrate", [i |-> i, key |-> key, k |-> k], NoObj, 0, NoObj, 0, NoObj,
                       IF t.cls = "Trunc"
                       THEN [val |-> MkSeq(R, LAMBDA r : TrMoment(t, r, k)),
                             scale |-> [ln |-> MkSeq(R, LAMBDA r : TrMass(t, r)),
                                        c |-> MkSeq(R, LAMBDA r : RawMoment(IF k % 2 = 0 THEN k ELSE k + 1, TrMu(t, r),
                                                                         FMul(TrSigma(t, r), TrSigma(t, r))))]]
                       ELSE [num |-> MkSeq(R, LAMBDA r : TrMoment0(t, r, k)),
                             den |-> MkSeq(R, LAMBDA r : TrMoment0(t, r, 0)),
                             scale |-> [ln |-> MkSeq(R, LAMBDA r : LNZero),
                                        c |-> MkSeq(R, LAMBDA r : RawMoment(IF k % 2 = 0 THEN k ELSE k + 1, TrMu(t, r),
                                                                         FMul(TrSigma(t, r), TrSigma(t, r))))]]))

\* exact order comparison of two menu scalars (plain integer arithmetic)
QLe(a, b) == a.n * b.d <= b.n * a.d

\* __call__ at exact points qX (menu 1-vectors): u(x) inside the interval, 0 outside; TruncPDF divides by the truncated mass
ATruncCall(i, qX, elementwise) ==
    LET t == heap[i] R == NumR(t.u) N == Len(qX)
        inside(r, k) == LET x == Q(qX[k].n[1], qX[k].d) lm == t.lims[r] IN (lm.loInf \/ QLe(lm.lo, x)) /\ (lm.hiInf \/ QLe(x, lm.hi))
        cell(r, k) == [inside |-> inside(r, k), ln |-> IF t.cls = "Trunc" THEN EvalLn(t.u, r, QV(qX[k]))
                                                     ELSE LNSub(EvalLn(t.u, r, QV(qX[k])), TrMass(t, r))]
    IN /\ IsTrunc(t) /\ (elementwise => N = R)
       /\ Emit(heap, Step("TruncCall", [i |-> i, x |-> qX, elementwise |-> elementwise], NoObj, 0, NoObj, 0, NoObj,
                          [cells |-> IF elementwise THEN MkSeq(R, LAMBDA r : cell(r, r))
                                     ELSE MkSeq(R, LAMBDA r : MkSeq(N, LAMBDA k : cell(r, k))),
                           den |-> IF t.cls = "Trunc" THEN <<>> ELSE MkSeq(R, LAMBDA r : TrMoment0(t, r, 0))]))

ATruncGetDensity(i) ==
    LET t == heap[i] n == [t EXCEPT !.cls = "TruncPDF"] IN
    /\ IsTrunc(t) /\ t.cls = "Trunc"
    /\ Emit(Append(heap, n), Step("TruncGetDensity", [i |-> i], NoObj, NextId, [cls |-> "TruncPDF"], 0, NoObj, NoObj))

\* get_mean / get_variance of the normalised truncated density: moments m0, m1, m2 of the truncated standard problem
ATruncStat(i, what) ==
    LET t == heap[i] R == NumR(t.u) IN
    /\ IsTrunc(t) /\ t.cls = "TruncPDF"
    /\ Emit(heap, Step("TruncStat", [i |-> i, what |-> what], NoObj, 0, NoObj, 0, NoObj,
                       [m0 |-> MkSeq(R, LAMBDA r : TrMoment0(t, r, 0)), m1 |-> MkSeq(R, LAMBDA r : TrMoment0(t, r, 1)),
                        m2 |-> MkSeq(R, LAMBDA r : TrMoment0(t, r, 2))]))

\* ------------------------------------------------------------------------
\* Sampling (C19).  Densities for this purpose are built from a lower-triangular factor L with positive
\* rational diagonal, Sigma := L L', so that the Cholesky factor of Sigma is known exactly (it is L).
\* sample(key, n)[s][r] = mu_r + L_r z[s][r], where z = the key's standard normal stream of shape (n, R, D).
\* ------------------------------------------------------------------------
LMENU(d) ==
    CASE d = 1 -> << Q(<<<<2>>>>, 1), Q(<<<<1>>>>, 2), Q(<<<<3>>>>, 2) >>
      [] d = 2 -> << Q(<< <<1, 0>>, <<2, 1>> >>, 1), Q(<< <<4, 0>>, <<-6, 1>> >>, 2), Q(<< <<1, 0>>, <<3, 2>> >>, 3) >>
      [] d = 3 -> << Q(<< <<1, 0, 0>>, <<1, 2, 0>>, <<-2, 1, 1>> >>, 1), Q(<< <<2, 0, 0>>, <<-3, 1, 0>>, <<1, 4, 2>> >>, 2),
                     Q(<< <<3, 0, 0>>, <<0, 1, 0>>, <<2, -2, 1>> >>, 3) >>

\* exact Sigma = L L' as a menu record (plain integer arithmetic)
RECURSIVE ISum(_, _)
ISum(f, k) == IF k = 0 THEN 0 ELSE f[k] + ISum(f, k - 1)
LLt(q) == LET d == Len(q.n) IN
          Q([a \in 1..d |-> [b \in 1..d |-> ISum([c \in 1..d |-> q.n[a][c] * q.n[b][c]], d)]], q.d * q.d)

\* diagonal factors (for the diagonal density class)
DLMENU(d) ==
    CASE d = 1 -> << Q(<<<<2>>>>, 1), Q(<<<<1>>>>, 2), Q(<<<<3>>>>, 2) >>
      [] d = 2 -> << Q(<< <<1, 0>>, <<0, 3>> >>, 1), Q(<< <<4, 0>>, <<0, 1>> >>, 2), Q(<< <<1, 0>>, <<0, 2>> >>, 3) >>
      [] d = 3 -> << Q(<< <<1, 0, 0>>, <<0, 2, 0>>, <<0, 0, 3>> >>, 1), Q(<< <<2, 0, 0>>, <<0, 1, 0>>, <<0, 0, 5>> >>, 2),
                     Q(<< <<3, 0, 0>>, <<0, 1, 0>>, <<0, 0, 2>> >>, 3) >>

ANewPdfCholC(cls, d, R, s) ==
    LET qL == Pick(IF cls = "DiagPDF" THEN DLMENU(d) ELSE LMENU(d), R, s)
        qS == MkSeq(R, LAMBDA i : LLt(qL[i]))
        qm == Pick(VEC(d), R, s)
        o  == NewPdfGen(cls, "S", MkSeq(R, LAMBDA i : QM(qS[i])), MkSeq(R, LAMBDA i : QV(qm[i])), <<>>, <<>>)
    IN Emit(Append(heap, o),
            Step("NewPdf", [cls |-> cls, mode |-> "S", Sigma |-> qS, mu |-> qm, chol |-> qL, ci |-> s % Len(LMENU(d))], NoObj,
                 NextId, ExpectObj(o), 0, NoObj, NoObj))

ANewPdfChol(d, R, s) == ANewPdfCholC("PDF", d, R, s)

CholOf(i) == LET st == CHOOSE h \in {hist[k] : k \in 1..Len(hist)} : h.id = i IN st.a.chol

\* integer stream z[s][r][c]; zmode "int": a fixed pattern, "onehot": a single 1 at position (s0, r0, c0)
ZStream(n, R, d, zmode, s0, r0, c0) ==
    [s \in 1..n |-> [r \in 1..R |-> [c \in 1..d |->
        IF zmode = "int" THEN ((3 * s + 5 * r + 7 * c + s * r) % 5) - 2
        ELSE IF s = s0 /\ r = r0 /\ c = c0 THEN 1 ELSE 0]]]

\* mode "stream": jax.random.normal is replaced (in the harness) by the given integer stream z;
\* mode "key": the real generator with PRNGKey(seed); the harness draws the stream itself and uses L, mu
ASample(i, n, mode, zmode, s0, r0, c0, seed) ==
    LET p == heap[i] R == NumR(p) d == NumD(p)
        qL == CholOf(i)
        L == MkSeq(R, LAMBDA r : QM(qL[r]))
        z == ZStream(n, R, d, zmode, s0, r0, c0)
    IN /\ IsPdf(p)
       /\ Emit(heap, Step("Sample", [i |-> i, n |-> n, mode |-> mode, z |-> IF mode = "stream" THEN z ELSE <<>>, seed |-> seed],
                          NoObj, 0, NoObj, 0, NoObj,
                          [L |-> L, mu |-> p.mu,
                           x |-> IF mode = "stream"
                                 THEN MkSeq(n, LAMBDA s : MkSeq(R, LAMBDA r :
                                          VAdd(p.mu[r], MatVec(L[r], MkVec(d, LAMBDA c : FI(z[s][r][c])))))) ELSE <<>>]))

\* ------------------------------------------------------------------------
\* Approximate conditionals (C16, C17).  Results whose moments are values with atoms are exported as
\* [cls |-> "ValPDF", mu |-> R x D Vals, Sig |-> R x D x D Vals]; their precision / log-determinant / normalisation
\* are checked for coherence on the code object itself by the harness (inverse of a sum of atoms is not representable).
\* ------------------------------------------------------------------------
IsFeat(o) == o.cls \in {"LRBF", "LSEM"}
IsHet(o) == o.cls \in {"HetExp", "HetCosh", "HetStep", "HetRelu"}
Opaque(cls) == [cls |-> cls]

LSMENU == << Q(1, 1), Q(2, 1), Q(1, 2), Q(3, 2) >>
\* M menus for the feature models: Dy x (Dx + Dk), kernel columns non-zero
FeatM(dy, nphi, s) == Q([a \in 1..dy |-> [b \in 1..nphi |-> (((2 * a + 3 * b + s) % 5) - 2) + (IF a = b THEN 2 ELSE 0)]], 2)

ANewFeat(cls, dy, dx, dk, s) ==
    LET qM == FeatM(dy, dx + dk, s)
        qb == VEC2(dy)[(s % 4) + 1]
        qS == SPD(dy)[(s % 4) + 1]
        qc == Pick(VEC2(dx), dk, s + 1)                           \* RBF centres / SEM weights w_i
        ql == MkSeq(dk, LAMBDA i : Q([d \in 1..dx |-> LSMENU[((i + d + s) % 4) + 1].n * (2 \div LSMENU[((i + d + s) % 4) + 1].d)], 2))
        qw0 == Pick(POS, dk, s)                                   \* SEM offsets w0_i
        ctr == MkSeq(dk, LAMBDA i : QV(qc[i]))
        ls == MkSeq(dk, LAMBDA i : QV(ql[i]))
        Sg == QM(qS)
        ID == InvDet(Sg)
        c == [cls |-> cls, M |-> <<QM(qM)>>, b |-> <<QV(qb)>>, Sig |-> <<Sg>>, Lam |-> <<ID.inv>>, dSig |-> <<ID.det>>,
              kL |-> IF cls = "LRBF" THEN MkSeq(dk, LAMBDA i : RBFKernelL(ctr[i], ls[i])) ELSE MkSeq(dk, LAMBDA i : SEMKernelL(ctr[i])),
              kn |-> IF cls = "LRBF" THEN MkSeq(dk, LAMBDA i : RBFKerneln(ctr[i], ls[i])) ELSE MkSeq(dk, LAMBDA i : SEMKerneln(ctr[i], QS(qw0[i]))),
              kb |-> IF cls = "LRBF" THEN MkSeq(dk, LAMBDA i : RBFKernelb(ctr[i], ls[i])) ELSE MkSeq(dk, LAMBDA i : SEMKernelb(QS(qw0[i]))),
              ctr |-> ctr, ls |-> ls, w0 |-> MkSeq(dk, LAMBDA i : QS(qw0[i]))]
    IN Emit(Append(heap, c),
            Step("NewFeat", [cls |-> cls, M |-> qM, b |-> qb, Sigma |-> qS, centres |-> qc, length_scale |-> ql, w0 |-> qw0],
                 NoObj, NextId, Opaque(cls), 0, NoObj, NoObj))

AFeatCondOnX(i, N, s) ==
    LET c == heap[i] qX == Pick(PointMenu(FDx(c)), N, s) IN
    /\ IsFeat(c)
    /\ Emit(Append(heap, Opaque("ValPDF")),
            Step("ApproxCondOnX", [i |-> i, x |-> qX], NoObj, NextId,
                 [cls |-> "ValPDF", mu |-> MkSeq(N, LAMBDA k : FeatCondMean(c, QV(qX[k]))),
                  Sig |-> MkSeq(N, LAMBDA k : MkSeq(FDy(c), LAMBDA a : MkSeq(FDy(c), LAMBDA b : VConst(c.Sig[1][a][b]))))],
                 0, NoObj, NoObj))

ValBlock(Sxx, Cyx, Syy, dx, dy) ==       \* [[Sxx, Cyx'], [Cyx, Syy]] with Sxx rational, the others Val matrices
    MkSeq(dx + dy, LAMBDA a : MkSeq(dx + dy, LAMBDA b :
        IF a <= dx /\ b <= dx THEN VConst(Sxx[a][b])
        ELSE IF a <= dx THEN Cyx[b - dx][a]
        ELSE IF b <= dx THEN Cyx[a - dx][b]
        ELSE Syy[a - dx][b - dx]))

AFeatTransform(kind, i, j) ==
    LET c == heap[i] p == heap[j] R == NumR(p) dx == FDx(c) dy == FDy(c) IN
    /\ IsFeat(c) /\ IsPdf(p) /\ NumD(p) = dx
    /\ Emit(Append(heap, Opaque(IF kind = "conditional" THEN "ApproxCond" ELSE "ValPDF")),
            Step("ApproxTransform", [kind |-> kind, i |-> i, j |-> j], NoObj, NextId,
                 CASE kind = "marginal" -> [cls |-> "ValPDF", mu |-> MkSeq(R, LAMBDA r : FeatMeanY(c, p, r)),
                                            Sig |-> MkSeq(R, LAMBDA r : FeatCovY(c, p, r))]
                   [] kind = "joint" -> [cls |-> "ValPDF",
                                         mu |-> MkSeq(R, LAMBDA r : MkSeq(dx, LAMBDA a : VConst(Truth(p, r).mu[a])) \o FeatMeanY(c, p, r)),
                                         Sig |-> MkSeq(R, LAMBDA r : ValBlock(Truth(p, r).Sig, FeatCovYX(c, p, r), FeatCovY(c, p, r), dx, dy))]
                   [] kind = "conditional" -> Opaque("ApproxCond"),
                 0, NoObj, NoObj))

\* integrate_log_conditional(q) with q an arbitrary density over (y, x); integrate_log_conditional_y(p_x)(y) / (p_x, y=y)
AFeatIntLogCond(i, j) ==
    LET c == heap[i] q == heap[j] IN
    /\ IsFeat(c) /\ IsPdf(q) /\ NumD(q) = FDx(c) + FDy(c)
    /\ Emit(heap, Step("FeatIntLogCond", [i |-> i, j |-> j], NoObj, 0, NoObj, 0, NoObj,
                       [val |-> MkSeq(NumR(q), LAMBDA r : FeatIntLogCond(c, q, r))]))
AFeatIntLogCondY(i, j, s, via) ==
    LET c == heap[i] p == heap[j] R == NumR(p) qY == Pick(PointMenu(FDy(c)), R, s) IN
    /\ IsFeat(c) /\ IsPdf(p) /\ NumD(p) = FDx(c)
    /\ Emit(heap, Step("FeatIntLogCondY", [i |-> i, j |-> j, y |-> qY, via |-> via], NoObj, 0, NoObj, 0, NoObj,
                       [val |-> MkSeq(R, LAMBDA r : FeatIntLogCondY(c, p, r, QV(qY[r])))]))

\* heteroscedastic models
HetA(dy, da, s) == Q([a \in 1..dy |-> [b \in 1..da |-> IF a = b THEN 2 ELSE IF b > dy THEN ((a + b + s) % 3) - 1 ELSE IF b > a THEN 1 ELSE -1]], 2)
\* generic small weights (exp / cosh-1): Dk x (Dx + 1), offset in column 1
HetWGen(dk, dx, s) == Q([i \in 1..dk |-> [d \in 1..(dx + 1) |-> ((i + 2 * d + s) % 3) - 1 + (IF d = i + 1 THEN 1 ELSE 0)]], 3)
\* weights for the step / relu links, paired with a density built by ANewPdfChol(dx, 1, s): w_i = c (L')^-1 e_k,
\* so that sqrt(w_i' Sigma w_i) = |c| exactly.  Tables for dx = 1 (any w: sh = |w| l) and dx = 2.
HetWSq(dx, dk, s) ==
    LET ls == s % 3 IN
    IF dx = 1
    THEN LET l == LMENU(1)[ls + 1] IN     \* L = l.n/l.d ;  w = 1 / -1/2 ; sh = |w| l
         [W |-> Q([i \in 1..dk |-> IF i = 1 THEN <<1, 2>> ELSE <<-1, -1>>], 2),
          sh |-> MkSeq(dk, LAMBDA i : IF i = 1 THEN Q(l.n[1][1], l.d) ELSE Q(l.n[1][1], 2 * l.d))]
    ELSE CASE ls = 0 -> [W |-> Q([i \in 1..dk |-> IF i = 1 THEN <<1, 2, 0>> ELSE <<-1, -2, 1>>], 2),
                         sh |-> MkSeq(dk, LAMBDA i : IF i = 1 THEN Q(1, 1) ELSE Q(1, 2))]
           [] ls = 1 -> [W |-> Q([i \in 1..dk |-> IF i = 1 THEN <<1, 1, 0>> ELSE <<-1, 3, 2>>], 2),
                         sh |-> MkSeq(dk, LAMBDA i : IF i = 1 THEN Q(1, 1) ELSE Q(1, 2))]
           [] ls = 2 -> [W |-> Q([i \in 1..dk |-> IF i = 1 THEN <<1, 6, 0>> ELSE <<-2, -9, 3>>], 2),
                         sh |-> MkSeq(dk, LAMBDA i : IF i = 1 THEN Q(1, 1) ELSE Q(1, 1))]

\* zero input weights, non-zero offsets (homoscedastic limit)
HetWZero(dk, dx, s) == Q([i \in 1..dk |-> [d \in 1..(dx + 1) |-> IF d = 1 THEN (IF (i + s) % 2 = 0 THEN 1 + i ELSE 0 - i - (s % 2) - 1) ELSE 0]], 3)

ANewHetZ(cls, dy, da, dk, dx, s, zw) ==
    LET sq == cls \in {"HetStep", "HetRelu"}
        qM == MMenu(dy, dx)[((s + 1) % 3) + 1]
        qb == VEC2(dy)[(s % 4) + 1]
        qA == HetA(dy, da, s)
        ws == HetWSq(dx, dk, s)
        qW == IF zw THEN HetWZero(dk, dx, s) ELSE IF sq THEN ws.W ELSE HetWGen(dk, dx, s)
        c == [cls |-> cls, M |-> <<QM(qM)>>, b |-> <<QV(qb)>>, A |-> QM(qA), W |-> QM(qW),
              sh |-> IF sq THEN MkSeq(dk, LAMBDA i : QS(ws.sh[i])) ELSE MkSeq(dk, LAMBDA i : 0), qW |-> qW, zw |-> zw]
    IN /\ dy <= da /\ dk <= da /\ (sq => dx <= 2) /\ (zw => ~sq)
       /\ Emit(Append(heap, c),
               Step("NewHet", [cls |-> cls, M |-> qM, b |-> qb, A |-> qA, W |-> qW], NoObj, NextId, Opaque(cls), 0, NoObj, NoObj))

ANewHet(cls, dy, da, dk, dx, s) == ANewHetZ(cls, dy, da, dk, dx, s, FALSE)

\* exact value of the linear layer h_i(x) = w_i'x + w0_i at a menu point, as a rational [n, d] in plain integers
HLin(qW, i, qx) ==
    LET dx == Len(qx.n)
        num == qW.n[i][1] * qx.d + ISum([d \in 1..dx |-> qW.n[i][d + 1] * qx.n[d]], dx)
    IN Q(num, qW.d * qx.d)

\* link(h) at an exact rational h
LinkAt(cls, h) ==
    CASE cls = "HetExp" -> <<T1(1, LNQ(QS(h)))>>
      [] cls = "HetCosh" -> <<T1(FHalf, LNQ(QS(h))), T1(FHalf, LNQ(FNeg(QS(h)))), T1(FI(-1), LNZero)>>
      [] cls = "HetStep" -> VConst(IF h.n >= 0 THEN 1 ELSE 0)
      [] cls = "HetRelu" -> VConst(IF h.n >= 0 THEN QS(h) ELSE 0)

AHetCondOnX(i, N, s) ==
    LET c == heap[i] qX == Pick(PointMenu(HDx(c)), N, s) dy == HDy(c) S0 == HSigma0(c) IN
    /\ IsHet(c)
    /\ Emit(Append(heap, Opaque("ValPDF")),
            Step("ApproxCondOnX", [i |-> i, x |-> qX], NoObj, NextId,
                 [cls |-> "ValPDF",
                  mu |-> MkSeq(N, LAMBDA k : LET m == VAdd(MatVec(c.M[1], QV(qX[k])), c.b[1]) IN MkSeq(dy, LAMBDA a : VConst(m[a]))),
                  Sig |-> MkSeq(N, LAMBDA k : MkSeq(dy, LAMBDA a : MkSeq(dy, LAMBDA b :
                             VPlus(VConst(S0[a][b]),
                                   ValSumTo([u \in 1..HDk(c) |-> VScaleF(FMul(c.A[a][u], c.A[b][u]), LinkAt(c.cls, HLin(c.qW, u, qX[k])))], HDk(c))))))],
                 0, NoObj, NoObj))

AHetTransform(kind, i, j) ==
    LET c == heap[i] p == heap[j] R == NumR(p) dx == HDx(c) dy == HDy(c)
        VV(v) == MkSeq(Len(v), LAMBDA a : VConst(v[a]))
        VM(m) == MkSeq(Len(m), LAMBDA a : MkSeq(Len(m[1]), LAMBDA b : VConst(m[a][b])))
    IN /\ IsHet(c) /\ IsPdf(p) /\ NumD(p) = dx
       /\ Emit(Append(heap, Opaque(IF kind = "conditional" THEN "ApproxCond" ELSE "ValPDF")),
               Step("ApproxTransform", [kind |-> kind, i |-> i, j |-> j], NoObj, NextId,
                    CASE kind = "marginal" -> [cls |-> "ValPDF", mu |-> MkSeq(R, LAMBDA r : VV(HetMeanY(c, p, r))),
                                               Sig |-> MkSeq(R, LAMBDA r : HetCovY(c, p, r, c.sh))]
                      [] kind = "joint" -> [cls |-> "ValPDF",
                                            mu |-> MkSeq(R, LAMBDA r : VV(Truth(p, r).mu) \o VV(HetMeanY(c, p, r))),
                                            Sig |-> MkSeq(R, LAMBDA r : ValBlock(Truth(p, r).Sig, VM(HetCovYX(c, p, r)), HetCovY(c, p, r, c.sh), dx, dy))]
                      [] kind = "conditional" -> Opaque("ApproxCond"),
                    0, NoObj, NoObj))

\* integrate_log_conditional_y(p_x, y) of the step-link model with square A: the exact expectation (C17)
AHetIntLogCondY(i, j, s) ==
    LET c == heap[i] p == heap[j] R == NumR(p)
        qY == Pick(PointMenu(HDy(c)), R, s)
    IN /\ (c.cls = "HetStep" \/ (c.cls \in {"HetExp", "HetCosh"} /\ c.zw))
       /\ IsPdf(p) /\ NumD(p) = HDx(c) /\ HDa(c) = HDy(c) /\ R = 1
       /\ Emit(heap, Step("HetIntLogCondY", [i |-> i, j |-> j, y |-> qY, zw |-> c.zw], NoObj, 0, NoObj, 0, NoObj,
                          [val |-> MkSeq(R, LAMBDA r : IF c.cls = "HetStep" THEN StepIntLogCondY(c, p, r, QV(qY[r]), c.sh)
                                                        ELSE ZeroWIntLogCondY(c, p, r, QV(qY[r])))]))

\* k_func(p_x, W_u, omega): the log-determinant ingredient of the lower bound at a GIVEN expansion point (C17, clause 2)
OMEGAS == << Q(1, 2), Q(5, 2) >>
\* C17 quantifies over models with NON-ZERO offsets w0_i (with w_i = 0 and w0_i = 0 the expansion point is 0 and the
\* shipped formulas evaluate 0/0; outside the property)
NonZeroOffsets(c) == \A u \in 1..HDk(c) : ~FEq(HW0(c, u), 0)
AHetK(i, j, u, oi) ==
    LET c == heap[i] p == heap[j] T == Truth(p, 1)
        mh == FAdd(Dot(HW(c, u), T.mu), HW0(c, u))
        s2 == Quad(HW(c, u), T.Sig, HW(c, u))
        om == OMEGAS[oi]
    IN /\ c.cls \in {"HetExp", "HetCosh", "HetRelu"} /\ ~c.zw /\ NonZeroOffsets(c)
       /\ IsPdf(p) /\ NumD(p) = HDx(c) /\ NumR(p) = 1 /\ u \in 1..HDk(c)
       /\ Emit(heap, Step("HetK", [i |-> i, j |-> j, u |-> u, omega |-> om], NoObj, 0, NoObj, 0, NoObj,
                          [val |-> <<HetK(c.cls, mh, s2, c.sh[u], QS(om))>>]))

\* the heteroscedastic part of the quadratic term at a GIVEN expansion point (rectified-linear link, square A)
AHetLBI(i, j, u, oi, s) ==
    LET c == heap[i] p == heap[j] om == OMEGAS[oi]
        qY == Pick(PointMenu(HDy(c)), 1, s)
    IN /\ c.cls = "HetRelu" /\ NonZeroOffsets(c) /\ IsPdf(p) /\ NumD(p) = HDx(c) /\ NumR(p) = 1 /\ HDa(c) = HDy(c) /\ u \in 1..HDk(c)
       /\ Emit(heap, Step("HetLBI", [i |-> i, j |-> j, u |-> u, omega |-> om, y |-> qY], NoObj, 0, NoObj, 0, NoObj,
                          [val |-> <<ReluLBI(c, p, u, QV(qY[1]), c.sh, QS(om))>>]))

\* the shipped value is the stated combination of the ingredients at the code's own expansion points:
\*   -1/2 ( quad0 - sum_i LBI_i(om*_i) + ln det Sigma0 + sum_i K_i(om+_i) + Dy ln 2 pi )
\* quad0 and ln det Sigma0 come from the specification; the harness evaluates the ingredient FUNCTIONS of the code
\* (verified by HetK / HetLBI for arbitrary expansion points) at the code's own points.
AHetLBAssembly(i, j, s) ==
    LET c == heap[i] p == heap[j] qY == Pick(PointMenu(HDy(c)), 1, s) IN
    /\ c.cls \in {"HetExp", "HetCosh", "HetRelu"} /\ ~c.zw /\ NonZeroOffsets(c)
    /\ IsPdf(p) /\ NumD(p) = HDx(c) /\ NumR(p) = 1 /\ HDa(c) = HDy(c)
    /\ Emit(heap, Step("HetLBAssembly", [i |-> i, j |-> j, y |-> qY], NoObj, 0, NoObj, 0, NoObj,
                       [quad0 |-> HetBaseQuad(c, p, QV(qY[1])), lndet0 |-> HetBaseLnDet(c), dy |-> <<>>]))

\* ------------------------------------------------------------------------
\* Properties that are meaningful in every state of every instance
\* ------------------------------------------------------------------------
\* C04: every populated cache of every live object equals the value derived
\* from the defining parameters.
Inv_CacheCoherent == \A i \in 1..Len(heap) : CacheCoherent(heap[i])

\* C02: every object of a density class has mass one
Inv_PdfNormalised == \A i \in 1..Len(heap) : IsPdf(heap[i]) => IsNormalised(heap[i])

\* C02: what the mass queries report (lnZ cache + ln_beta) is the true log-mass
Inv_ReportedMass ==
    \A i \in 1..Len(heap) :
        LET o == heap[i] IN
        (IsMeasure(o) /\ o.cZ) => \A r \in 1..NumR(o) : LNEq(LNAdd(o.lnZ[r], o.lnb[r]), LnMass(o, r))

Last == hist[Len(hist)]

\* C01: the step just taken was a product; check pointwise multiplication on the
\* unisolvent lattice, with the documented component layouts
Inv_Pointwise ==
    (hist # <<>> /\ Last.act \in {"Multiply", "Hadamard", "Product"}) =>
      LET res == heap[Last.id] IN
      IF Last.act = "Product"
      THEN LET o == heap[Last.a.i] IN
           /\ NumR(res) = 1
           /\ \A x \in Lattice2(NumD(o)) :
                LNEq(EvalLn(res, 1, x), LNSumTo([r \in 1..NumR(o) |-> EvalLn(o, r, x)], NumR(o)))
      ELSE LET u == heap[Last.a.i] f == heap[Last.a.j] R1 == NumR(u) R2 == NumR(f) IN
           IF Last.act = "Multiply"
           THEN /\ NumR(res) = R1 * R2
                /\ \A a \in 1..R1 : \A b \in 1..R2 : \A x \in Lattice2(NumD(u)) :
                     LNEq(EvalLn(res, (a - 1) * R2 + b, x), LNAdd(EvalLn(u, a, x), EvalLn(f, b, x)))
           ELSE /\ NumR(res) = Max(R1, R2)
                /\ \A k \in 1..Max(R1, R2) : \A x \in Lattice2(NumD(u)) :
                     LNEq(EvalLn(res, k, x),
                          LNAdd(EvalLn(u, IF R1 = 1 THEN 1 ELSE k, x), EvalLn(f, IF R2 = 1 THEN 1 ELSE k, x)))

\* ------------------------------------------------------------------------
\* Frame condition (an ACTION property, checked on every transition): a step changes only what it declares.
\*  - every object other than the declared in-place target still denotes the same function afterwards (cache-filling
\*    queries may set cache fields of a measure, never its function); non-measure objects are unchanged as records;
\*  - update(idx, d) leaves the components it does not address unchanged, with all their cached fields
\*    (C12: "replaces exactly the addressed components"; C01: "the operands are left unchanged").
\* The replay binds it to the code: after every call each operand is compared with the specification's record.
\* ------------------------------------------------------------------------
SameObj(a, b) == IF a.cls \in MeasureClasses THEN a.cls = b.cls /\ SemEq(a, b) ELSE a = b
SameComp(a, b, r) ==
    /\ MEq(a.Lam[r], b.Lam[r]) /\ VEq(a.nu[r], b.nu[r]) /\ LNEq(a.lnb[r], b.lnb[r])
    /\ MEq(a.Sig[r], b.Sig[r]) /\ FEq(a.dSig[r], b.dSig[r]) /\ VEq(a.mu[r], b.mu[r]) /\ LNEq(a.lnZ[r], b.lnZ[r])
FrameStep ==
    (Len(hist') = Len(hist) + 1) =>        \* a step was appended (the trace specification also resets both variables)
      LET st == hist'[Len(hist')] IN
      /\ Len(heap') >= Len(heap)
      /\ \A id \in 1..Len(heap) :
           IF st.mid = id /\ st.act \in {"Normalize", "UpdateSigma"} THEN TRUE      \* Inv_Normalize / Inv_UpdateSigma
           ELSE IF st.mid = id /\ st.act = "Update"
           THEN LET R == NumR(heap[id])
                    addressed == {(IF st.a.idx[k] < 0 THEN st.a.idx[k] + R ELSE st.a.idx[k]) + 1 : k \in 1..Len(st.a.idx)}
                IN /\ NumR(heap'[id]) = R
                   /\ \A r \in (1..R) \ addressed : SameComp(heap'[id], heap[id], r)
           ELSE SameObj(heap'[id], heap[id])
Prop_Frame == [][FrameStep]_vars

\* C02: normalize() divides by the mass
Inv_Normalize ==
    (hist # <<>> /\ Last.act = "Normalize") =>
      LET o == heap[Last.a.i] IN IsNormalised(o)

\* C12: slicing returns exactly the addressed components (caches included)
Inv_Slice ==
    (hist # <<>> /\ Last.act = "Slice") =>
      LET o == heap[Last.a.i] n == heap[Last.id] idx == Last.a.idx R == Len(o.Lam) IN
      /\ Len(n.Lam) = Len(idx)
      /\ \A k \in 1..Len(idx) :
           LET r == (IF idx[k] < 0 THEN idx[k] + R ELSE idx[k]) + 1 IN
           IF IsCond(o)
           THEN /\ MEq(n.M[k], o.M[r]) /\ VEq(n.b[k], o.b[r]) /\ MEq(n.Sig[k], o.Sig[r])
                /\ MEq(n.Lam[k], o.Lam[r]) /\ FEq(n.dSig[k], o.dSig[r])
           ELSE SameFunctionC(n.Lam[k], n.nu[k], n.lnb[k], o.Lam[r], o.nu[r], o.lnb[r])

\* ------------------------------------------------------------------------
\* Densities and conditionals: the identities of C05 - C10, C13 on the lattice
\* ------------------------------------------------------------------------
IsAct(a) == hist # <<>> /\ Last.act = a
Plus1(s) == [k \in 1..Len(s) |-> s[k] + 1]
AllComps(o) == [k \in 1..NumR(o) |-> k]

\* p_r(x) = cond_r(x_a | x_b) * marg_r(x_b) for all x (lattice), dy = coordinates of x_b, dx = of x_a
ChainRule(p, r, dy, dx, marg, cond) ==
    \A x \in Lattice2(NumD(p)) :
        LNEq(LNAdd(CondLn(cond, r, TakeV(x, dy), TakeV(x, dx)), EvalLn(marg, r, TakeV(x, dy))), EvalLn(p, r, x))

\* C05: the marginal is N(mu[dims], Sigma[dims, dims]) and is the integral of the joint over the other coordinates:
\* together with the conditional of the remaining coordinates it factorises the joint, and that conditional has mass one.
Inv_Marginal ==
    IsAct("Marginal") =>
      LET p == heap[Last.a.i] m == heap[Last.id] dims == Plus1(Last.a.dims) rest == Complement(NumD(p), dims) IN
      /\ NumR(m) = NumR(p) /\ NumD(m) = Len(dims)
      /\ \A r \in 1..NumR(p) :
           /\ MEq(m.Sig[r], TakeM(Inv(p.Lam[r]), dims, dims))
           /\ VEq(m.mu[r], TakeV(Truth(p, r).mu, dims))
           /\ IF rest = <<>>
              THEN \A x \in Lattice2(NumD(p)) : LNEq(EvalLn(m, r, TakeV(x, dims)), EvalLn(p, r, x))
              ELSE ChainRule(p, r, dims, rest, m, ConditionOnExplicit(p, dims, rest))

\* C06
Inv_ConditionOn ==
    (IsAct("ConditionOn") \/ IsAct("ConditionOnExplicit")) =>
      LET p == heap[Last.a.i] c == heap[Last.id] dy == Plus1(Last.a.dy)
          dx == IF Last.act = "ConditionOn" THEN Complement(NumD(p), dy) ELSE Plus1(Last.a.dx)
          marg == Marginal(p, dy)
      IN /\ CR(c) = NumR(p) /\ CDy(c) = Len(dx) /\ CDx(c) = Len(dy)
         /\ CondCoherent(c)
         /\ \A r \in 1..NumR(p) : ChainRule(p, r, dy, dx, marg, c)

\* C05: linear image.  For square invertible W the density of y = W x + b is p(x) / |det W| (change of variables).
Inv_LinearSum ==
    IsAct("LinearSum") =>
      LET p == heap[Last.a.i] n == heap[Last.id] IN
      \A r \in 1..NumR(p) :
        LET W == QM(Last.a.W[r])
            b == IF Last.a.bmode = "none" THEN ZeroVec(Rows(W)) ELSE QV(Last.a.b[r]) IN
        /\ MEq(n.Sig[r], MatMulT(MatMul(W, Inv(p.Lam[r])), W))
        /\ VEq(n.mu[r], VAdd(MatVec(W, Truth(p, r).mu), b))
        \* the law of y = W x + b through the exact (Isserlis) moments of its coordinates, any full-row-rank W
        /\ LET T == Truth(p, r) f(a) == RowForm(W, b, a) IN
           \A a1 \in 1..Rows(W) :
              /\ FEq(n.mu[r][a1], Mom1(f(a1), T.mu, T.Sig))
              /\ \A a2 \in 1..Rows(W) :
                    FEq(n.Sig[r][a1][a2], FSub(Mom2(f(a1), f(a2), T.mu, T.Sig), FMul(Mom1(f(a1), T.mu, T.Sig), Mom1(f(a2), T.mu, T.Sig))))
        /\ Rows(W) = Cols(W) =>
             \A x \in Lattice2(NumD(p)) :
                LNEq(EvalLn(n, r, VAdd(MatVec(W, x), b)), LNSub(EvalLn(p, r, x), LNLn(DetL(W))))

\* C13: closed forms equal the definitions through moments
Inv_EntropyKL ==
    /\ IsAct("Entropy") => LET p == heap[Last.a.i] IN \A r \in 1..NumR(p) : LNEq(EntropySem(p, r), EntropyClosed(p, r))
    /\ IsAct("KL") => LET p == heap[Last.a.i] q == heap[Last.a.j] R1 == NumR(p) R2 == NumR(q) IN
                      \A k \in 1..Max(R1, R2) :
                         LET a == IF R1 = 1 THEN 1 ELSE k b == IF R2 = 1 THEN 1 ELSE k IN
                         /\ LNEq(KLSem(p, a, q, b), KLClosed(p, a, q, b))
                         /\ SemEq(Slice(p, <<a>>), Slice(q, <<b>>)) => LNEq(KLSem(p, a, q, b), LNZero)

\* C12: update replaces exactly the addressed components, all fields consistently
Inv_Update ==
    IsAct("Update") =>
      LET p == heap[Last.a.i] q == heap[Last.a.j]
          idx == [k \in 1..Len(Last.a.idx) |-> (IF Last.a.idx[k] < 0 THEN Last.a.idx[k] + NumR(p) ELSE Last.a.idx[k]) + 1] IN
      /\ CacheCoherent(p) /\ IsNormalised(p)
      /\ \A k \in 1..Len(idx) : SemEq(Slice(p, <<idx[k]>>), Slice(q, <<k>>))

\* condition_on_x: component r*N+n is N(y; M_r x_n + b_r, Sigma_r)
Inv_CondOnX ==
    IsAct("CondOnX") =>
      LET c == heap[Last.a.i] n == heap[Last.id] N == Len(Last.a.x) IN
      /\ NumR(n) = CR(c) * N
      /\ \A r \in 1..CR(c) : \A k \in 1..N : \A y \in Lattice2(CDy(c)) :
            LNEq(EvalLn(n, (r - 1) * N + k, y), CondLn(c, r, QV(Last.a.x[k]), y))

\* C10: set_y(y)(x) = N(y; M x + b, Sigma) including the normaliser; one component per observation
Inv_SetY ==
    IsAct("SetY") =>
      LET c == heap[Last.a.i] f == heap[Last.id] N == Len(Last.a.y) IN
      /\ NumR(f) = N
      /\ \A k \in 1..N : \A x \in Lattice2(CDx(c)) :
            LNEq(EvalLn(f, k, x), CondLn(c, IF CR(c) = 1 THEN 1 ELSE k, x, QV(Last.a.y[k])))

XPart(z, dx) == MkVec(dx, LAMBDA a : z[a])
YPart(z, dx, dy) == MkVec(dy, LAMBDA a : z[dx + a])

\* C07 / C08 / C09
Inv_Transform ==
    (IsAct("Transform") /\ Last.id # 0) =>
      LET c == heap[Last.a.i] p == heap[Last.a.j] n == heap[Last.id]
          Rx == NumR(p) Rn == CR(c) * Rx dx == CDx(c) dy == CDy(c)
          jnt == Joint(c, p) py == MarginalT(c, p) post == CondT(c, p)
      IN
      CASE Last.a.kind = "joint" ->
             /\ NumR(n) = Rn /\ NumD(n) = dx + dy
             /\ \A k \in 1..Rn : LET i == TI(k, Rx) j == TJ(k, Rx) IN
                  /\ \A z \in Lattice2(dx + dy) :
                        LNEq(EvalLn(n, k, z), LNAdd(CondLn(c, i, XPart(z, dx), YPart(z, dx, dy)), EvalLn(p, j, XPart(z, dx))))
                  /\ MEq(JointLambdaInfo(c, i, p, j), n.Lam[k])
                  /\ FEq(JointDetSchurSigma(c, i, p, j), n.dSig[k])
                  /\ FEq(JointDetSchurLambda(c, i, p, j), n.dSig[k])
        [] Last.a.kind = "marginal" ->
             /\ SemEq(n, Marginal(jnt, [a \in 1..dy |-> dx + a]))
             /\ \A k \in 1..Rn : LET i == TI(k, Rx) j == TJ(k, Rx) IN
                  \A z \in Lattice2(dx + dy) :      \* p(x|y) p(y) = p(y|x) p(x)
                     LNEq(LNAdd(CondLn(post, k, YPart(z, dx, dy), XPart(z, dx)), EvalLn(n, k, YPart(z, dx, dy))),
                          LNAdd(CondLn(c, i, XPart(z, dx), YPart(z, dx, dy)), EvalLn(p, j, XPart(z, dx))))
        [] Last.a.kind = "conditional" ->
             /\ CR(n) = Rn /\ CondCoherent(n)
             /\ \A k \in 1..Rn : LET i == TI(k, Rx) j == TJ(k, Rx) IN
                  /\ \A z \in Lattice2(dx + dy) :
                       LNEq(LNAdd(CondLn(n, k, YPart(z, dx, dy), XPart(z, dx)), EvalLn(py, k, YPart(z, dx, dy))),
                            LNAdd(CondLn(c, i, XPart(z, dx), YPart(z, dx, dy)), EvalLn(p, j, XPart(z, dx))))
                  \* invertibility, component by component
                  /\ LET nk == CondSlice(n, <<k>>) pyk == Slice(py, <<k>>)
                         back == CondT(nk, pyk) px == MarginalT(nk, pyk) IN
                     /\ MEq(back.M[1], c.M[i]) /\ VEq(back.b[1], c.b[i]) /\ MEq(back.Sig[1], c.Sig[i])
                     /\ SemEq(px, Slice(p, <<j>>))

\* C13: conditional entropy and mutual information
Inv_Info ==
    IsAct("Info") =>
      LET c == heap[Last.a.i] p == heap[Last.a.j] Rx == NumR(p) Rn == CR(c) * Rx
          jnt == Joint(c, p) py == MarginalT(c, p) post == CondT(c, p) dx == CDx(c) dy == CDy(c)
          yx == [a \in 1..(dx + dy) |-> IF a <= dy THEN dx + a ELSE a - dy]      \* reorder (x,y) -> (y,x)
          jyx == Marginal(jnt, yx)
      IN \A k \in 1..Rn : LET i == TI(k, Rx) j == TJ(k, Rx) IN
           /\ LNEq(CondEntropy(c, i), LNSub(EntropySem(jnt, k), EntropySem(p, j)))      \* H(X,Y) - H(X)
           /\ LNEq(CondEntropy(c, i), LNNeg(IntLogCond(c, i, jyx, k)))                  \* -E[ln p(y|x)]
           /\ LNEq(MutualInfo(c, i, p, j),
                   LNSub(LNAdd(EntropySem(p, j), EntropySem(py, k)), EntropySem(jnt, k)))   \* H(X)+H(Y)-H(X,Y)
           /\ LNEq(MutualInfo(c, i, p, j), MutualInfo(post, k, py, k))                  \* roles swapped
           /\ (\A a \in 1..dy : \A b \in 1..dx : c.M[i][a][b] = 0) => LNEq(MutualInfo(c, i, p, j), LNZero)

\* C14: the expected log-conditional of a linear model under an ARBITRARY Gaussian q over (y, x) agrees with the
\* entry-wise Isserlis expansion  -1/2 sum_kl Lam_kl E[r_k r_l] - Dy/2 ln 2pi - 1/2 ln det Sigma,  r = y - M x - b
Inv_IntLogCond ==
    (IsAct("IntLogCond") /\ ~("raises" \in DOMAIN Last.a)) =>
      LET c == heap[Last.a.i] q == heap[Last.a.j] dy == CDy(c) IN
      \A k \in 1..NumR(q) :
        LET i == IF CR(c) = 1 THEN 1 ELSE k
            T == Truth(q, k)
            A == HCat(Eye(dy), MNeg(c.M[i]))
            f(a) == Form(A[a], FNeg(c.b[i][a]))
            quad == SumOver(dy, LAMBDA a1 : SumOver(dy, LAMBDA a2 : FMul(c.Lam[i][a1][a2], Mom2(f(a1), f(a2), T.mu, T.Sig))))
        IN LNEq(IntLogCond(c, i, q, k), LN(FNeg(FHalfOf(quad)), 0 - dy, FInv(c.dSig[i])))

\* C14: E_{p(x)}[ln p(y|x)] is the expectation under the model's own joint of ... consistency between the two integrals:
\* integrating IntLogCondY over y ~ p(y|x)p(x) is not representable; instead both are tied to the same moment formula
\* and IntLogCond under the model's own joint equals minus the conditional entropy (Inv_Info).
Inv_UpdateSigma ==
    IsAct("UpdateSigma") => CondCoherent(heap[Last.a.i])

Inv_CondCoherent == \A i \in 1..Len(heap) : IsCond(heap[i]) => CondCoherent(heap[i])

\* C03: coherence of the integration table with itself (independent rearrangements of the same Isserlis sums)
Inv_IntegrateTable ==
    IsAct("Integrate") =>
      LET o == heap[Last.a.i] d == NumD(o) key == Last.a.key
          E(k2, r, c1, c2, c3, c4) ==
              LET T == Truth(o, r) IN
              ExpectExpr(k2, T.mu, T.Sig, EffMat(c1, r, d), EffVec(c1, r, d), EffMat(c2, r, d), EffVec(c2, r, d),
                         EffMat(c3, r, d), EffVec(c3, r, d), EffMat(c4, r, d), EffVec(c4, r, d))
          cA == Last.a.A cB == Last.a.B cC == Last.a.C cD == Last.a.D
      IN \A r \in 1..NumR(o) :
           CASE key = "(Ax+a)'(Bx+b)" -> FEq(E(key, r, cA, cB, cC, cD), Trace(E("(Ax+a)(Bx+b)'", r, cA, cB, cC, cD)))
             [] key = "(Ax+a)'(Bx+b)(Cx+c)'" -> VEq(E(key, r, cA, cB, cC, cD), E("(Ax+a)(Bx+b)'(Cx+c)", r, cC, cA, cB, cD))
             [] key = "(Ax+a)'(Bx+b)(Cx+c)'(Dx+d)" ->
                   FEq(E(key, r, cA, cB, cC, cD), Trace(E("(Ax+a)(Bx+b)'(Cx+c)(Dx+d)'", r, cA, cC, cD, cB)))
             [] key = "x" -> VEq(E(key, r, cA, cB, cC, cD), Truth(o, r).mu)
             [] key = "xx'" -> MEq(E(key, r, cA, cB, cC, cD), MAdd(Truth(o, r).Sig, Outer(Truth(o, r).mu, Truth(o, r).mu)))
             [] OTHER -> TRUE

\* C02: every object of a density class evaluates to the normal density of its own mean and covariance
Inv_PdfIsNormal ==
    \A i \in 1..Len(heap) :
        LET o == heap[i] IN
        IsPdf(o) => \A r \in 1..NumR(o) : \A x \in Lattice2(NumD(o)) :
                        LNEq(EvalLn(o, r, x), NormalLn(x, Truth(o, r).mu, Truth(o, r).Sig))

\* C15: the specialised code paths (diagonal inversion, rank-one update, covariance reuse) change cost only:
\* the step just taken gives the same function when its operands are replaced by their general-class twins
Generalize(o) ==
    IF IsCond(o) THEN [o EXCEPT !.cls = "Cond"]
    ELSE [MkObj(IF IsMeasure(o) THEN "Measure" ELSE "Factor", o.Lam, o.nu, o.lnb) EXCEPT !.cS = FALSE]
Inv_Generalize ==
    /\ IsAct("Multiply") => SemEq(heap[Last.id], Multiply(Generalize(heap[Last.a.i]), Generalize(heap[Last.a.j]), Last.a.full))
    /\ IsAct("Hadamard") => SemEq(heap[Last.id], Hadamard(Generalize(heap[Last.a.i]), Generalize(heap[Last.a.j]), Last.a.full))
    /\ IsAct("Product") => SemEq(heap[Last.id], Product(Generalize(heap[Last.a.i])))
    /\ IsAct("GetDensity") => SemEq(heap[Last.id], GetDensity(Generalize(heap[Last.a.i])))
    /\ (IsAct("Multiply") \/ IsAct("Hadamard") \/ IsAct("Product") \/ IsAct("GetDensity")) =>
          CacheCoherent(heap[Last.id])

\* C20: the antiderivative certificate; additivity over adjacent intervals; the untruncated limit
Inv_TruncCertificate == \A j \in 0..6 : TruncCertificate(j)
Inv_TruncAdditive ==
    IsAct("TruncIntegrate") =>
      LET t == heap[Last.a.i] k == Last.a.k IN
      \A r \in 1..NumR(t.u) :
        LET ln == TrMass(t, r) mu == TrMu(t, r) sg == TrSigma(t, r)
            cut == FQ(1, 3)         \* an arbitrary interior cut point (standardised)
            whole == TruncMomentVal(k, ln, mu, sg, t.lims[r].loInf, TrAlpha(t, r), t.lims[r].hiInf, TrBeta(t, r))
            left == TruncMomentVal(k, ln, mu, sg, t.lims[r].loInf, TrAlpha(t, r), FALSE, cut)
            right == TruncMomentVal(k, ln, mu, sg, FALSE, cut, t.lims[r].hiInf, TrBeta(t, r))
            full == TruncMomentVal(k, ln, mu, sg, TRUE, 0, TRUE, 0)
        IN /\ ValEq(left \o right, whole)
           /\ ValEq(full, <<Term(RawMoment(k, mu, FMul(sg, sg)), ln, "one", 0)>>)
           /\ k <= 4 => FEq(RawMoment(k, mu, FMul(sg, sg)),
                            LET f == Form(<<1>>, 0) m == <<mu>> S == <<<<FMul(sg, sg)>>>> IN
                            CASE k = 0 -> 1 [] k = 1 -> Mom1(f, m, S) [] k = 2 -> Mom2(f, f, m, S)
                              [] k = 3 -> Mom3(f, f, f, m, S) [] k = 4 -> Mom4(f, f, f, f, m, S))

\* C19: the factor paired with component r reproduces that component's covariance: L_r L_r' = Sigma_r
Inv_Sample ==
    IsAct("Sample") =>
      LET p == heap[Last.a.i] qL == CholOf(Last.a.i) IN
      \A r \in 1..NumR(p) : LET L == QM(qL[r]) IN
          /\ MEq(MatMulT(L, L), Truth(p, r).Sig)
          /\ \A a \in 1..NumD(p) : \A b \in 1..NumD(p) : a < b => L[a][b] = 0      \* lower triangular

\* C16: kernels are bumps of unit height; kernel expectations agree with the independent closed form
Inv_KernelUnitHeight ==
    \A i \in 1..Len(heap) : LET c == heap[i] IN
       (c.cls = "LRBF" => \A k \in 1..FDk(c) : LNEq(EvalLnC(c.kL[k], c.kn[k], c.kb[k], c.ctr[k]), LNZero))
    /\ (c.cls = "LSEM" => \A k \in 1..FDk(c) :
            LET w == c.ctr[k] xs == VScale(FDiv(c.w0[k], Dot(w, w)), w) IN LNEq(EvalLnC(c.kL[k], c.kn[k], c.kb[k], xs), LNZero))
Inv_KernelExpectation ==
    (IsAct("ApproxTransform") /\ IsFeat(heap[Last.a.i])) =>
      LET c == heap[Last.a.i] p == heap[Last.a.j] IN
      \A r \in 1..NumR(p) : \A k \in 1..FDk(c) :
         LET T == Truth(p, r) IN
         LNEq(ProdStats(c, p, r, <<k>>).ln,
              IF c.cls = "LRBF" THEN RBFKernelExpectation(c.ctr[k], c.ls[k], T.mu, T.Sig)
              ELSE SEMKernelExpectation(c.ctr[k], c.w0[k], T.mu, T.Sig))
\* heteroscedastic models: the supplied sh really is sqrt(w' Sigma w)
Inv_HetSh ==
    (IsAct("ApproxTransform") /\ heap[Last.a.i].cls \in {"HetStep", "HetRelu"}) =>
      LET c == heap[Last.a.i] p == heap[Last.a.j] IN
      \A r \in 1..NumR(p) : \A u \in 1..HDk(c) : FEq(FMul(c.sh[u], c.sh[u]), Quad(HW(c, u), Truth(p, r).Sig, HW(c, u)))

\* the exporter: print the behaviour once it is complete (Done is defined by the MC module)
Export(done) == done => PrintT(ToJson(hist))
=============================================================================
