--------------------------------- MODULE GT ---------------------------------
(***************************************************************************)
(* The library as a session state machine.                                 *)
(*                                                                         *)
(*   heap : sequence of live objects (append-only; mutating calls rewrite  *)
(*          an entry in place) - the abstract state of a Python session.   *)
(*   hist : the sequence of public calls made so far, each with its exact  *)
(*          arguments and the exact expected observables.  It is a         *)
(*          history variable: it makes every behaviour a distinct path and *)
(*          is what the exporter prints for the replay harness (B1).       *)
(*                                                                         *)
(* One action per public call.  The linearization point of a call in this  *)
(* sequential library is its return.  MC_* modules instantiate the menus   *)
(* and compose the actions into bounded scenarios / sessions.              *)
(***************************************************************************)
EXTENDS Menus, Json

VARIABLES heap, hist
vars == <<heap, hist>>

NoObj == <<>>

\* ------------------------------------------------------------------------
\* Expected observables of an object: always the TRUE values, derived from
\* the defining parameters only.  (The stored caches of the spec object are
\* proved equal to them by Inv_CacheCoherent; the code's caches are compared
\* with them by the replay harness whenever the code object exposes them.)
\* In these records every integer is a field element, except under key k.
\* ------------------------------------------------------------------------
ExpectObj(o) ==
    IF IsMeasure(o)
    THEN LET R == NumR(o)
             T == MkSeq(R, LAMBDA i : Truth(o, i))
         IN [cls |-> o.cls, Lam |-> o.Lam, nu |-> o.nu, lnb |-> o.lnb,
             Sig |-> MkSeq(R, LAMBDA i : T[i].Sig), dSig |-> MkSeq(R, LAMBDA i : T[i].dSig),
             mu |-> MkSeq(R, LAMBDA i : T[i].mu), lnZ |-> MkSeq(R, LAMBDA i : T[i].lnZ),
             cS |-> o.cS, cZ |-> o.cZ, cM |-> o.cM]
    ELSE IF o.cls = "Rank1"
         THEN [cls |-> o.cls, Lam |-> o.Lam, nu |-> o.nu, lnb |-> o.lnb, v |-> o.v, g |-> o.g]
         ELSE [cls |-> o.cls, Lam |-> o.Lam, nu |-> o.nu, lnb |-> o.lnb]

Step(act, a, f, id, o, mid, mo, ret) ==
    [act |-> act, a |-> a, f |-> f, id |-> id, o |-> o, mid |-> mid, mo |-> mo, ret |-> ret]

Emit(newheap, step) == heap' = newheap /\ hist' = Append(hist, step)

NextId == Len(heap) + 1
Put(i, o) == [heap EXCEPT ![i] = o]

\* ------------------------------------------------------------------------
\* Constructors
\* ------------------------------------------------------------------------
ANewMeasure(cls, d, R, s) ==
    LET qL == Pick(IF cls = "DiagMeasure" THEN DPD(d) ELSE SPD(d), R, s)
        qn == Pick(VEC(d), R, s)
        qb == Pick(LNB, R, s)
        o  == MkObj(cls, MkSeq(R, LAMBDA i : QM(qL[i])), MkSeq(R, LAMBDA i : QV(qn[i])),
                    MkSeq(R, LAMBDA i : LNQ(QS(qb[i]))))
    IN Emit(Append(heap, o),
            Step("NewMeasure", [cls |-> cls, Lambda |-> qL, nu |-> qn, ln_beta |-> qb], NoObj,
                 NextId, ExpectObj(o), 0, NoObj, NoObj))

ANewPdf(cls, mode, d, R, s) ==
    LET qS == Pick(IF cls = "DiagPDF" THEN DPD(d) ELSE SPD(d), R, s + 1)
        qm == Pick(VEC(d), R, s + 1)
        Sg == MkSeq(R, LAMBDA i : QM(qS[i]))
        ID == MkSeq(R, LAMBDA i : InvDet(Sg[i]))
        Li == MkSeq(R, LAMBDA i : ID[i].inv)
        dS == MkSeq(R, LAMBDA i : ID[i].det)
        o  == NewPdfGen(cls, mode, Sg, MkSeq(R, LAMBDA i : QV(qm[i])), Li, dS)
    IN Emit(Append(heap, o),
            Step("NewPdf", [cls |-> cls, mode |-> mode, Sigma |-> qS, mu |-> qm],
                 [Lambda |-> Li, dSig |-> dS],
                 NextId, ExpectObj(o), 0, NoObj, NoObj))

ANewFactor(cls, d, R, s) ==
    LET qL == Pick(SPD(d), R, s + 2)
        qn == Pick(VEC(d), R, s + 1)
        qb == Pick(LNB, R, s + 1)
        qv == Pick(VEC2(d), R, s)
        qg == Pick(POS, R, s)
        nu == MkSeq(R, LAMBDA i : QV(qn[i]))
        lb == MkSeq(R, LAMBDA i : LNQ(QS(qb[i])))
        o  == CASE cls = "Factor" -> NewFactor(MkSeq(R, LAMBDA i : QM(qL[i])), nu, lb)
                [] cls = "Rank1"  -> NewRank1(MkSeq(R, LAMBDA i : QV(qv[i])), MkSeq(R, LAMBDA i : QS(qg[i])), nu, lb)
                [] cls = "Linear" -> NewLinear(nu, lb)
                [] cls = "Const"  -> NewConst(lb, d)
        a  == CASE cls = "Factor" -> [cls |-> cls, Lambda |-> qL, nu |-> qn, ln_beta |-> qb]
                [] cls = "Rank1"  -> [cls |-> cls, v |-> qv, g |-> qg, nu |-> qn, ln_beta |-> qb]
                [] cls = "Linear" -> [cls |-> cls, nu |-> qn, ln_beta |-> qb]
                [] cls = "Const"  -> [cls |-> cls, ln_beta |-> qb, num_dim |-> d]
    IN Emit(Append(heap, o), Step("NewFactor", a, NoObj, NextId, ExpectObj(o), 0, NoObj, NoObj))

\* ------------------------------------------------------------------------
\* Read-only-looking queries that fill caches in place
\* ------------------------------------------------------------------------
MassQueries == {"integral", "integral_light", "log_integral", "log_integral_light", "integrate1"}

AQuery(i, q) ==
    LET o  == heap[i]
        o1 == IF q \in {"integral_light", "log_integral_light"} THEN AfterLogIntegralLight(o)
              ELSE AfterLogIntegral(o)
    IN /\ IsMeasure(o)
       /\ Emit(Put(i, o1),
               Step("Query", [i |-> i, q |-> q], NoObj, 0, NoObj, 0, NoObj,
                    [ln |-> MkSeq(NumR(o), LAMBDA r : LnMass(o, r))]))

\* compute_lnZ / compute_mu / invert_lambda called directly (public methods)
ACompute(i, what) ==
    LET o  == heap[i]
        o1 == CASE what = "compute_lnZ" -> ComputeLnZ(o)
                [] what = "compute_mu" -> ComputeMu(o)
                [] what = "invert_lambda" -> InvertLambda(o)
    IN /\ IsMeasure(o)
       /\ Emit(Put(i, o1), Step("Compute", [i |-> i, what |-> what], NoObj, 0, NoObj, 0, NoObj, NoObj))

ANormalize(i) ==
    LET o == heap[i] o1 == Normalize(o) IN
    /\ IsMeasure(o)
    /\ Emit(Put(i, o1), Step("Normalize", [i |-> i], NoObj, 0, NoObj, i, ExpectObj(o1), NoObj))

AGetDensity(i) ==
    LET o == heap[i] o1 == AfterGetDensity(o) p == GetDensity(o) IN
    /\ IsMeasure(o)
    /\ Emit(Append(Put(i, o1), p), Step("GetDensity", [i |-> i], NoObj, NextId, ExpectObj(p), 0, NoObj, NoObj))

\* ------------------------------------------------------------------------
\* Algebra
\* ------------------------------------------------------------------------
\* idx: sequence of 1-based positions; the code is called with 0-based (or negative) indices: codeIdx
ASlice(i, idx, codeIdx) ==
    LET o == heap[i] n == Slice(o, idx) IN
    Emit(Append(heap, n), Step("Slice", [i |-> i, idx |-> codeIdx], NoObj, NextId, ExpectObj(n), 0, NoObj, NoObj))

AProduct(i) ==
    LET o == heap[i] n == Product(o) IN
    Emit(Append(heap, n), Step("Product", [i |-> i], NoObj, NextId, ExpectObj(n), 0, NoObj, NoObj))

\* via in {"multiply", "mul"}: u.multiply(f, update_full=full) or u * f (full must be FALSE)
AMultiply(i, j, full, via) ==
    LET u == heap[i] f == heap[j] n == Multiply(u, f, full) IN
    /\ IsMeasure(u) /\ NumD(u) = NumD(f)
    /\ via = "mul" => ~full
    /\ Emit(Append(heap, n),
            Step("Multiply", [i |-> i, j |-> j, full |-> full, via |-> via, path |-> MultiplyPath(u, f, full)],
                 NoObj, NextId, ExpectObj(n), 0, NoObj, NoObj))

AHadamard(i, j, full) ==
    LET u == heap[i] f == heap[j] n == Hadamard(u, f, full) IN
    /\ IsMeasure(u) /\ NumD(u) = NumD(f) /\ HadamardOK(u, f)
    /\ Emit(Append(heap, n),
            Step("Hadamard", [i |-> i, j |-> j, full |-> full, path |-> MultiplyPath(u, f, full)],
                 NoObj, NextId, ExpectObj(n), 0, NoObj, NoObj))

\* evaluate_ln / evaluate / __call__ at the points X (sequence of integer points).
\* elementwise: X must have exactly R points, point r is paired with component r.
AEvaluate(i, X, elementwise, via) ==
    LET o == heap[i] R == NumR(o) IN
    /\ elementwise => Len(X) = R
    /\ Emit(heap,
            Step("Evaluate", [i |-> i, x |-> X, elementwise |-> elementwise, via |-> via], NoObj, 0, NoObj, 0, NoObj,
                 [ln |-> IF elementwise THEN MkSeq(R, LAMBDA r : EvalLn(o, r, X[r]))
                         ELSE MkSeq(R, LAMBDA r : MkSeq(Len(X), LAMBDA n : EvalLn(o, r, X[n])))]))

\* ------------------------------------------------------------------------
\* Properties that are meaningful in every state of every instance
\* ------------------------------------------------------------------------
\* C04: every populated cache of every live object equals the value derived
\* from the defining parameters.
Inv_CacheCoherent == \A i \in 1..Len(heap) : CacheCoherent(heap[i])

\* C02: every object of a density class has mass one
Inv_PdfNormalised == \A i \in 1..Len(heap) : IsPdf(heap[i]) => IsNormalised(heap[i])

\* C02: what the mass queries report (lnZ cache + ln_beta) is the true log-mass
Inv_ReportedMass ==
    \A i \in 1..Len(heap) :
        LET o == heap[i] IN
        (IsMeasure(o) /\ o.cZ) => \A r \in 1..NumR(o) : LNEq(LNAdd(o.lnZ[r], o.lnb[r]), LnMass(o, r))

Last == hist[Len(hist)]

\* C01: the step just taken was a product; check pointwise multiplication on the
\* unisolvent lattice, with the documented component layouts
Inv_Pointwise ==
    (hist # <<>> /\ Last.act \in {"Multiply", "Hadamard", "Product"}) =>
      LET res == heap[Last.id] IN
      IF Last.act = "Product"
      THEN LET o == heap[Last.a.i] IN
           /\ NumR(res) = 1
           /\ \A x \in Lattice2(NumD(o)) :
                LNEq(EvalLn(res, 1, x), LNSumTo([r \in 1..NumR(o) |-> EvalLn(o, r, x)], NumR(o)))
      ELSE LET u == heap[Last.a.i] f == heap[Last.a.j] R1 == NumR(u) R2 == NumR(f) IN
           IF Last.act = "Multiply"
           THEN /\ NumR(res) = R1 * R2
                /\ \A a \in 1..R1 : \A b \in 1..R2 : \A x \in Lattice2(NumD(u)) :
                     LNEq(EvalLn(res, (a - 1) * R2 + b, x), LNAdd(EvalLn(u, a, x), EvalLn(f, b, x)))
           ELSE /\ NumR(res) = Max(R1, R2)
                /\ \A k \in 1..Max(R1, R2) : \A x \in Lattice2(NumD(u)) :
                     LNEq(EvalLn(res, k, x),
                          LNAdd(EvalLn(u, IF R1 = 1 THEN 1 ELSE k, x), EvalLn(f, IF R2 = 1 THEN 1 ELSE k, x)))

\* C02: normalize() divides by the mass
Inv_Normalize ==
    (hist # <<>> /\ Last.act = "Normalize") =>
      LET o == heap[Last.a.i] IN IsNormalised(o)

\* C12: slicing returns exactly the addressed components (caches included)
Inv_Slice ==
    (hist # <<>> /\ Last.act = "Slice") =>
      LET o == heap[Last.a.i] n == heap[Last.id] idx == Last.a.idx R == NumR(o) IN
      /\ NumR(n) = Len(idx)
      /\ \A k \in 1..Len(idx) :
           LET r == (IF idx[k] < 0 THEN idx[k] + R ELSE idx[k]) + 1 IN
           SameFunctionC(n.Lam[k], n.nu[k], n.lnb[k], o.Lam[r], o.nu[r], o.lnb[r])

\* the exporter: print the behaviour once it is complete (Done is defined by the MC module)
Export(done) == done => PrintT(ToJson(hist))
=============================================================================
