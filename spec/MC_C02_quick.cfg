CONSTANTS
  P = 46337
  Ds = {1, 2}
  Rs = {1, 2}
  Kinds = {"Measure", "DiagMeasure", "PDF:S", "PDF:SL", "PDF:SLD", "DiagPDF:S", "DiagPDF:SL", "DiagPDF:SLD"}
  FKinds = {"Factor", "Rank1", "Linear", "Const"}
  Mods = {"none", "multiply", "hadamard", "slice", "normalize", "get_density", "product"}
INIT Init
NEXT Next
CHECK_DEADLOCK FALSE
PROPERTY Prop_Frame
INVARIANT Inv_CacheCoherent
INVARIANT Inv_PdfNormalised
INVARIANT Inv_PdfIsNormal
INVARIANT Inv_ReportedMass
INVARIANT Inv_Normalize
INVARIANT Inv_Generalize
INVARIANT Inv_Export
