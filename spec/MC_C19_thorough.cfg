CONSTANTS
  P = 46337
  Ds = {1, 2, 3}
  Rs = {1, 2, 3, 4}
  Offs = {0, 1, 2}
  NSamples = {1, 3, 8}
  Seeds = {0, 7, 42}
  BigN = {600001, 1500000}
INIT Init
NEXT Next
CHECK_DEADLOCK FALSE
PROPERTY Prop_Frame
INVARIANT Inv_CacheCoherent
INVARIANT Inv_PdfNormalised
INVARIANT Inv_Sample
INVARIANT Inv_Export
