----------------------------- MODULE MC_SESSION -----------------------------
(***************************************************************************)
(* The session machine explored as a real state space (C04, C02, C12):     *)
(* after the initial objects have been constructed, EVERY enabled public   *)
(* operation on EVERY compatible pair of live objects is a successor, up   *)
(* to Depth operations, with cache-filling queries freely interleaved.     *)
(* The invariants (cache coherence, reported mass, densities normalised,   *)
(* conditionals coherent, slicing, pointwise products, transformations)    *)
(* are evaluated in every reachable state.                                 *)
(*                                                                         *)
(* Family "M": one measure + one factor; the factor / measure algebra.     *)
(* Family "C": one conditional + one density; conditioning, likelihood     *)
(*             factors, affine transformations, marginals.                 *)
(* Sampling: every behaviour is checked by TLC; the exporter prints those  *)
(* whose deterministic hash is SampleRes modulo SampleMod (1 = all).       *)
(***************************************************************************)
EXTENDS GT, FiniteSets

CONSTANTS Family, Depth, MaxHeap, MaxR, Ds, InitKinds, FactorKinds, CondKinds, RInit, SampleMod, SampleRes, Rich

n == Len(hist)
NInit == 2

Init == heap = <<>> /\ hist = <<>>

Objs == 1..Len(heap)
Measures == {i \in Objs : IsMeasure(heap[i])}
Pdfs == {i \in Objs : IsPdf(heap[i])}
Conds == {i \in Objs : IsCond(heap[i])}
FamObjs == {i \in Objs : ~IsCond(heap[i])}

NewOfKind(k, d, R, s) ==
    CASE k \in {"Measure", "DiagMeasure"} -> ANewMeasure(k, d, R, s)
      [] k = "PDF:S" -> ANewPdf("PDF", "S", d, R, s)
      [] k = "PDF:SLD" -> ANewPdf("PDF", "SLD", d, R, s)
      [] k = "DiagPDF:S" -> ANewPdf("DiagPDF", "S", d, R, s)
      [] OTHER -> ANewFactor(k, d, R, s)

Room == Len(heap) < MaxHeap

\* index patterns for slicing an object with R components (1-based positions; repetitions, permutations) and the
\* index array handed to the code (0-based; positions in the upper half are addressed by negative indices)
SlicePatterns(R) ==
    IF ~Rich THEN {<<R>>} \cup (IF R >= 2 THEN {<<1, 1>>, <<2, 1>>} ELSE {<<1, 1>>})
    ELSE CASE R = 1 -> {<<1>>, <<1, 1>>}
           [] R = 2 -> {<<2>>, <<2, 1>>, <<1, 1, 2>>}
           [] OTHER -> {<<R>>, <<R, 1>>, <<2, R, 1>>, <<1, R, R>>, <<R - 1, 1>>}
CodeIdx(idx, R) == [k \in 1..Len(idx) |-> IF 2 * idx[k] > R THEN idx[k] - 1 - R ELSE idx[k] - 1]

\* The session is pipeline shaped: operations act on the most recent object `cur` (and on the two initial
\* objects 1, 2 as second operands); cache-warming queries may hit the initial measure or the current object.
\* family M starts with the focus on the measure (object 1; object 2 is the factor used as second operand)
cur == IF Family = "M" /\ Len(heap) <= 2 THEN 1 ELSE Len(heap)
Focus == {1, cur} \cap Measures
\* the most recent object of a factor class (object 2 or a slice / product of it)
PlainFactors == {i \in Objs : ~IsCond(heap[i]) /\ ~IsMeasure(heap[i])}
LastFactor == IF PlainFactors = {} THEN 2        \* the second operand is itself a measure / density
              ELSE CHOOSE i \in PlainFactors : \A j \in PlainFactors : j <= i

StepM ==
    \/ \E i \in Focus : \E q \in {"integral", "log_integral_light"} : AQuery(i, q)
    \/ \E i \in Focus : ANormalize(i)
    \/ Room /\ cur \in Measures /\ AGetDensity(cur)
    \/ Room /\ cur \in Measures /\ \E j \in {1, 2, LastFactor} : \E full \in BOOLEAN :
           /\ NumR(heap[cur]) * NumR(heap[j]) <= MaxR
           /\ AMultiply(cur, j, full, "multiply")
    \/ Room /\ cur \in Measures /\ \E j \in {2, LastFactor} : \E full \in BOOLEAN : AHadamard(cur, j, full)
    \* the factor operand itself may be sliced or reduced once; the derived factor then serves as second operand
    \/ Room /\ PlainFactors # {} /\ LastFactor = 2 /\ \E idx \in SlicePatterns(NumR(heap[2])) : ASlice(2, idx, CodeIdx(idx, NumR(heap[2])))
    \/ Room /\ PlainFactors # {} /\ LastFactor = 2 /\ NumR(heap[2]) > 1 /\ AProduct(2)
    \/ Room /\ cur \in FamObjs /\ NumR(heap[cur]) > 1 /\ AProduct(cur)
    \/ Room /\ cur \in FamObjs /\ \E idx \in SlicePatterns(NumR(heap[cur])) : ASlice(cur, idx, CodeIdx(idx, NumR(heap[cur])))

CondPdfPairs == {pr \in (Conds \cap {1, cur}) \X (Pdfs \cap {2, cur}) : CDx(heap[pr[1]]) = NumD(heap[pr[2]])}

StepC ==
    \/ Room /\ \E pr \in CondPdfPairs : \E k \in {"joint", "marginal", "conditional"} :
           /\ CR(heap[pr[1]]) * NumR(heap[pr[2]]) <= MaxR
           /\ IF TransformOK(heap[pr[1]], heap[pr[2]]) THEN ATransform(k, pr[1], pr[2]) ELSE ATransformRefused(k, pr[1], pr[2])
    \/ Room /\ \E i \in Conds \cap {1, cur} : CR(heap[i]) * 2 <= MaxR /\ ACondOnX(i, 2, 1, "condition_on_x")
    \/ Room /\ \E i \in Conds \cap {1, cur} : CDx(heap[i]) = CDy(heap[i]) /\ ASetY(i, IF CR(heap[i]) = 1 THEN 2 ELSE CR(heap[i]), 0)
    \/ Room /\ cur \in Conds /\ \E idx \in SlicePatterns(CR(heap[cur])) : ACondSlice(cur, idx, CodeIdx(idx, CR(heap[cur])))
    \/ \E i \in Conds \cap {1, cur} : AUpdateSigma(i, 2)
    \/ Room /\ cur \in Pdfs /\ NumD(heap[cur]) >= 2 /\ heap[cur].cls = "PDF" /\ \E dy \in {<<1>>, <<NumD(heap[cur])>>} : AConditionOn(cur, dy)
    \/ Room /\ cur \in Pdfs /\ NumD(heap[cur]) >= 2 /\ \E dims \in {<<NumD(heap[cur])>>, <<2, 1>>} : AMarginal(cur, dims)
    \/ Room /\ cur \in Pdfs /\ \E idx \in SlicePatterns(NumR(heap[cur])) : ASlice(cur, idx, CodeIdx(idx, NumR(heap[cur])))
    \/ cur \in Pdfs /\ cur # 2 /\ NumR(heap[2]) = 1 /\ NumD(heap[cur]) = NumD(heap[2]) /\ heap[cur].cls = heap[2].cls
           /\ AUpdate(cur, <<NumR(heap[cur])>>, 2)
    \/ \E i \in Pdfs \cap {2, cur} : AQuery(i, "log_integral")
    \/ cur \in Measures \ Pdfs /\ AQuery(cur, "log_integral_light")
    \/ Room /\ cur \in FamObjs \ Measures /\ \E i \in Pdfs \cap {2} : NumD(heap[i]) = NumD(heap[cur]) /\ AMultiply(i, cur, TRUE, "multiply")

Next ==
    \/ /\ n = 0
       /\ IF Family = "M" THEN \E d \in Ds, k \in InitKinds, R \in RInit : NewOfKind(k, d, R, 0)
          ELSE \E d \in Ds, k \in CondKinds, R \in RInit, m \in {"S", "L"} :
                  ANewCond(k, m, "given", d, d, R, 0, 0) \/ (~IsIdCond(k) /\ d > 1 /\ ANewCond(k, m, "given", d - 1, d, R, 0, 0))
    \/ /\ n = 1
       /\ IF Family = "M" THEN \E k \in FactorKinds, R \in RInit : NewOfKind(k, NumD(heap[1]), R, 1)
          ELSE \E R \in RInit : ANewPdf("PDF", "S", CDx(heap[1]), R, 1)
    \/ /\ n >= NInit /\ n < NInit + Depth
       /\ IF Family = "M" THEN StepM ELSE StepC

\* deterministic hash of the action sequence (independent of the prime)
ActCode(s) ==
    CASE s.act = "Query" -> 3 [] s.act = "Normalize" -> 5 [] s.act = "GetDensity" -> 7 [] s.act = "Multiply" -> 11
      [] s.act = "Hadamard" -> 13 [] s.act = "Product" -> 17 [] s.act = "Slice" -> 19 [] s.act = "Transform" -> 23
      [] s.act = "CondOnX" -> 29 [] s.act = "SetY" -> 31 [] s.act = "UpdateSigma" -> 37 [] s.act = "ConditionOn" -> 41
      [] s.act = "Marginal" -> 43 [] s.act = "Update" -> 47 [] OTHER -> 1
RECURSIVE HashTo(_)
HashTo(k) == IF k = 0 THEN 7 ELSE (HashTo(k - 1) * 31 + ActCode(hist[k]) * (hist[k].id + 3) + k) % 10007

Done == n = NInit + Depth \/ (n >= NInit /\ ~ENABLED Next)
Inv_Export == Export(Done /\ HashTo(n) % SampleMod = SampleRes)
=============================================================================
