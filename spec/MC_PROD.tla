------------------------------- MODULE MC_PROD -------------------------------
(***************************************************************************)
(* C01 (last clause) over the batch size: product() of an object with R    *)
(* components, for every kind, evaluates to the product of all components. *)
(* One short behaviour per (kind, R, D, cache state):                      *)
(*   1 construct   2 optional cache-warming query   3 product()            *)
(*   4 evaluate the product on the unisolvent lattice  5 its log-integral  *)
(* The batch size ranges over a whole interval (size-dependent reductions, *)
(* blocked / pairwise summation, padding) rather than the few sizes the    *)
(* outer-product scenarios of MC_C01 reach.                                *)
(***************************************************************************)
EXTENDS GT

CONSTANTS Ds, Rs, Offs

n == Len(hist)
d0 == NumD(heap[1])

Kinds == {"Measure", "DiagMeasure", "PDF:S", "PDF:SL", "DiagPDF:S", "Factor", "Rank1", "Linear", "Const"}

NewOfKind(k, d, R, s) ==
    CASE k \in {"Measure", "DiagMeasure"} -> ANewMeasure(k, d, R, s)
      [] k = "PDF:S" -> ANewPdf("PDF", "S", d, R, s)
      [] k = "PDF:SL" -> ANewPdf("PDF", "SL", d, R, s)
      [] k = "DiagPDF:S" -> ANewPdf("DiagPDF", "S", d, R, s)
      [] OTHER -> ANewFactor(k, d, R, s)

\* optional constructor arguments are omitted in every combination (documented defaults nu = 0, ln_beta = 0, g = 1)
Optional(k) == IF k \in {"Measure", "DiagMeasure"} THEN {"nu", "ln_beta"}
               ELSE IF k \in {"Factor", "Rank1", "Linear", "Const"} THEN FactorOptional(k) ELSE {}
NewOfKindO(k, d, R, s, om) ==
    CASE k \in {"Measure", "DiagMeasure"} -> ANewMeasureO(k, d, R, s, om)
      [] k \in {"Factor", "Rank1", "Linear", "Const"} -> ANewFactorO(k, d, R, s, om)
      [] OTHER -> om = {} /\ NewOfKind(k, d, R, s)

Nop == Emit(heap, Step("Nop", [x |-> 0], NoObj, 0, NoObj, 0, NoObj, NoObj))

Init == heap = <<>> /\ hist = <<>>

Next ==
    \/ n = 0 /\ \E d \in Ds, k \in Kinds, R \in Rs, s \in Offs :
                   \E om \in (IF R <= 3 THEN SUBSET Optional(k) ELSE {{}}) : NewOfKindO(k, d, R, s, om)
    \/ n = 1 /\ (\/ Nop
                 \/ (heap[1].cls \in {"Measure", "DiagMeasure"} /\ AQuery(1, "integral")))
    \/ n = 2 /\ AProduct(1)
    \/ n = 3 /\ AEvaluate(2, LatticeSeq(d0), FALSE, "evaluate_ln")
    \/ n = 4 /\ IF IsMeasure(heap[2]) THEN AQuery(2, "log_integral") ELSE Nop
    \* an in-place operation on the RESULT: the operand (object 1) must not notice (final sweep of the replay, Prop_Frame)
    \/ n = 5 /\ IF IsMeasure(heap[2]) THEN ANormalize(2) ELSE Nop
    \/ n = 6 /\ IF IsMeasure(heap[1]) THEN AQuery(1, "log_integral") ELSE Nop

Done == n = 7
Inv_Export == Export(Done)

Spec == Init /\ [][Next]_vars
=============================================================================
