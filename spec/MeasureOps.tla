---------------------------- MODULE MeasureOps ----------------------------
(***************************************************************************)
(* IMPLEMENTATION-SHAPED LAYER for factors, measures and densities         *)
(* (factor.py, measure.py, pdf.py).  One operator per public operation,    *)
(* with the same case analysis as the code: which caches are filled, and   *)
(* by which formula (full inversion, diagonal inversion, Sherman-Morrison  *)
(* + matrix determinant lemma, covariance reuse).  The invariants of GT    *)
(* prove each case coherent with the semantic layer (module Gauss).        *)
(***************************************************************************)
EXTENDS Gauss

\* ------------------------------------------------------------------------
\* Constructors (= __post_init__)
\* ------------------------------------------------------------------------
NewFactor(Lam, nu, lnb) == MkObj("Factor", Lam, nu, lnb)
NewMeasure(Lam, nu, lnb) == MkObj("Measure", Lam, nu, lnb)
NewDiagMeasure(Lam, nu, lnb) == MkObj("DiagMeasure", Lam, nu, lnb)
NewLinear(nu, lnb) ==
    LET d == Len(nu[1]) IN MkObj("Linear", MkSeq(Len(nu), LAMBDA i : ZeroMat(d, d)), nu, lnb)
NewConst(lnb, d) ==
    MkObj("Const", MkSeq(Len(lnb), LAMBDA i : ZeroMat(d, d)), MkSeq(Len(lnb), LAMBDA i : ZeroVec(d)), lnb)
NewRank1(v, g, nu, lnb) ==
    [MkObj("Rank1", MkSeq(Len(v), LAMBDA i : MScale(g[i], Outer(v[i], v[i]))), nu, lnb)
        EXCEPT !.v = v, !.g = g]

\* ------------------------------------------------------------------------
\* Cache-filling internals (measure.py)
\* ------------------------------------------------------------------------
IsDiagCls(o) == o.cls \in DiagClasses

\* invert_lambda: full Cholesky inversion, or entry-wise inversion of the diagonal
InvertLambda(o) ==
    LET R == NumR(o) IN
    IF IsDiagCls(o)
    THEN [o EXCEPT !.cS = TRUE,
                   !.Sig = MkSeq(R, LAMBDA i : Diag(MkVec(NumD(o), LAMBDA j : FInv(o.Lam[i][j][j])))),
                   !.dSig = MkSeq(R, LAMBDA i : FInv(FProdTo(DiagOf(o.Lam[i]), NumD(o))))]
    ELSE [o EXCEPT !.cS = TRUE,
                   !.Sig = MkSeq(R, LAMBDA i : Inv(o.Lam[i])),
                   !.dSig = MkSeq(R, LAMBDA i : FInv(Det(o.Lam[i])))]

\* compute_lnZ: always recomputes lnZ from the stored covariance
ComputeLnZ(o) ==
    LET o1 == IF o.cS THEN o ELSE InvertLambda(o) IN
    [o1 EXCEPT !.cZ = TRUE,
               !.lnZ = MkSeq(NumR(o), LAMBDA i :
                          LN(FHalfOf(Quad(o1.nu[i], o1.Sig[i], o1.nu[i])), NumD(o), o1.dSig[i]))]

ComputeMu(o) ==
    LET o1 == IF o.cS THEN o ELSE InvertLambda(o) IN
    [o1 EXCEPT !.cM = TRUE, !.mu = MkSeq(NumR(o), LAMBDA i : MatVec(o1.Sig[i], o1.nu[i]))]

PrepareIntegration(o) ==
    LET o1 == IF o.cZ THEN o ELSE ComputeLnZ(o)
    IN IF o1.cM THEN o1 ELSE ComputeMu(o1)

\* what the four mass queries return (after filling the caches they need)
AfterLogIntegralLight(o) == IF o.cZ THEN o ELSE ComputeLnZ(o)
AfterLogIntegral(o) == PrepareIntegration(o)
ReportedLnMass(o) == MkSeq(NumR(o), LAMBDA i : LNAdd(o.lnZ[i], o.lnb[i]))   \* o must have cZ

\* normalize(): recompute lnZ, set ln_beta = -lnZ
Normalize(o) ==
    LET o1 == ComputeLnZ(o) IN
    [o1 EXCEPT !.lnb = MkSeq(NumR(o), LAMBDA i : LNNeg(o1.lnZ[i]))]

\* ------------------------------------------------------------------------
\* GaussianPDF / GaussianDiagPDF constructor.  mode: "S" (Sigma, mu),
\* "SL" (+ Lambda), "SLD" (+ Lambda + ln_det_Sigma).  LamIn / dSigIn are the
\* values supplied by the caller and ignored when the mode does not pass them.
\* ------------------------------------------------------------------------
NewPdfGen(cls, mode, Sig, mu, LamIn, dSigIn) ==
    LET R == Len(Sig)
        d == Len(mu[1])
        isDiag == cls = "DiagPDF"
        Lam == IF mode = "S"
               THEN (IF isDiag
                     THEN MkSeq(R, LAMBDA i : Diag(MkVec(d, LAMBDA j : FInv(Sig[i][j][j]))))
                     ELSE MkSeq(R, LAMBDA i : Inv(Sig[i])))
               ELSE LamIn
        dS == IF mode = "S"
              THEN (IF isDiag THEN MkSeq(R, LAMBDA i : FProdTo(DiagOf(Sig[i]), d))
                              ELSE MkSeq(R, LAMBDA i : Det(Sig[i])))
              ELSE IF mode = "SL" THEN MkSeq(R, LAMBDA i : DetL(Sig[i]))   \* slogdet
              ELSE dSigIn
        nu == MkSeq(R, LAMBDA i : VecMat(mu[i], Lam[i]))    \* einsum("abc,ab->ac", Lambda, mu)
        o0 == [MkObj(cls, Lam, nu, MkSeq(R, LAMBDA i : LNZero))
                 EXCEPT !.cS = TRUE, !.Sig = Sig, !.dSig = dS, !.cM = TRUE, !.mu = mu]
    IN Normalize(PrepareIntegration(o0))

NewPdf(Sig, mu) == NewPdfGen("PDF", "S", Sig, mu, <<>>, <<>>)
NewPdfFull(Sig, mu, Lam, dSig) == NewPdfGen("PDF", "SLD", Sig, mu, Lam, dSig)

\* get_density(): fill caches, build a GaussianPDF from (Sigma, mu, Lambda, ln_det_Sigma)
AfterGetDensity(o) == PrepareIntegration(o)
GetDensity(o) == LET o1 == PrepareIntegration(o) IN NewPdfFull(o1.Sig, o1.mu, o1.Lam, o1.dSig)

\* ------------------------------------------------------------------------
\* slice(idx): idx is a sequence of 1-based component indices
\* ------------------------------------------------------------------------
TakeS(s, idx) == MkSeq(Len(idx), LAMBDA k : s[idx[k]])

Slice(o, idx) ==
    CASE o.cls = "Factor" -> NewFactor(TakeS(o.Lam, idx), TakeS(o.nu, idx), TakeS(o.lnb, idx))
      [] o.cls = "Rank1"  -> NewRank1(TakeS(o.v, idx), TakeS(o.g, idx), TakeS(o.nu, idx), TakeS(o.lnb, idx))
      [] o.cls = "Linear" -> NewLinear(TakeS(o.nu, idx), TakeS(o.lnb, idx))
      [] o.cls = "Const"  -> NewConst(TakeS(o.lnb, idx), NumD(o))
      [] o.cls \in {"Measure", "DiagMeasure"} ->
            LET n == MkObj(o.cls, TakeS(o.Lam, idx), TakeS(o.nu, idx), TakeS(o.lnb, idx)) IN
            IF o.cS THEN [n EXCEPT !.cS = TRUE, !.Sig = TakeS(o.Sig, idx), !.dSig = TakeS(o.dSig, idx)]
                    ELSE n
      [] o.cls \in PdfClasses ->
            NewPdfGen(o.cls, "SLD", TakeS(o.Sig, idx), TakeS(o.mu, idx), TakeS(o.Lam, idx), TakeS(o.dSig, idx))

\* ------------------------------------------------------------------------
\* product(): one component, the product of all
\* ------------------------------------------------------------------------
RECURSIVE MSumTo(_, _)
MSumTo(s, k) == IF k = 1 THEN s[1] ELSE MAdd(s[k], MSumTo(s, k - 1))
RECURSIVE VSumTo(_, _)
VSumTo(s, k) == IF k = 1 THEN s[1] ELSE VAdd(s[k], VSumTo(s, k - 1))

Product(o) ==
    LET R == NumR(o)
        L == <<MSumTo(o.Lam, R)>>
        n == <<VSumTo(o.nu, R)>>
        b == <<LNSumTo(o.lnb, R)>>
    IN IF o.cls \in FactorClasses THEN NewFactor(L, n, b)
       ELSE LET cls == IF IsDiagCls(o) THEN "DiagMeasure" ELSE "Measure"
                m == MkObj(cls, L, n, b)
            IN IF o.cS THEN PrepareIntegration(m) ELSE m

\* ------------------------------------------------------------------------
\* multiply(f, update_full) -- outer product of the batches, layout i*R2+j --
\* and hadamard(f, update_full) -- component-wise, a single component broadcast.
\* The result is always a plain GaussianMeasure.
\* ------------------------------------------------------------------------
OuterI(k, R2) == ((k - 1) \div R2) + 1       \* 1-based index of the measure component
OuterJ(k, R2) == ((k - 1) % R2) + 1          \* 1-based index of the factor component

\* Sherman-Morrison: (L + g v v')^-1 from S = L^-1 ; matrix determinant lemma for det
ShermanSig(S, v, g) ==
    LET Sv == MatVec(S, v)
        den == FAdd(1, FMul(g, Dot(v, Sv)))
    IN MSub(S, MScale(FDiv(g, den), Outer(Sv, Sv)))
ShermanDet(S, dS, v, g) == FDiv(dS, FAdd(1, FMul(g, Dot(v, MatVec(S, v)))))

\* generic assembly: I(k), J(k) give the operand components of result component k
Combine(u, f, Rn, I(_), J(_), full) ==
    LET Lam == MkSeq(Rn, LAMBDA k : MAdd(u.Lam[I(k)], f.Lam[J(k)]))
        nu  == MkSeq(Rn, LAMBDA k : VAdd(u.nu[I(k)], f.nu[J(k)]))
        lnb == MkSeq(Rn, LAMBDA k : LNAdd(u.lnb[I(k)], f.lnb[J(k)]))
        m   == MkObj("Measure", Lam, nu, lnb)
    IN IF ~full THEN m
       ELSE IF f.cls \in {"Rank1", "Linear", "Const"} /\ u.cS
            THEN IF f.cls = "Rank1"
                 THEN [m EXCEPT !.cS = TRUE,
                          !.Sig = MkSeq(Rn, LAMBDA k : ShermanSig(u.Sig[I(k)], f.v[J(k)], f.g[J(k)])),
                          !.dSig = MkSeq(Rn, LAMBDA k : ShermanDet(u.Sig[I(k)], u.dSig[I(k)], f.v[J(k)], f.g[J(k)]))]
                 ELSE [m EXCEPT !.cS = TRUE,       \* covariance reuse
                          !.Sig = MkSeq(Rn, LAMBDA k : u.Sig[I(k)]),
                          !.dSig = MkSeq(Rn, LAMBDA k : u.dSig[I(k)])]
            ELSE [m EXCEPT !.cS = TRUE,            \* invert_matrix(Lambda_new)
                     !.Sig = MkSeq(Rn, LAMBDA k : Inv(Lam[k])),
                     !.dSig = MkSeq(Rn, LAMBDA k : FInv(Det(Lam[k])))]

Multiply(u, f, full) ==
    LET R2 == NumR(f) IN
    Combine(u, f, NumR(u) * R2, LAMBDA k : OuterI(k, R2), LAMBDA k : OuterJ(k, R2), full)

Max(a, b) == IF a >= b THEN a ELSE b
HadamardOK(u, f) == NumR(u) = NumR(f) \/ NumR(u) = 1 \/ NumR(f) = 1
Hadamard(u, f, full) ==
    LET R1 == NumR(u) R2 == NumR(f) IN
    Combine(u, f, Max(R1, R2), LAMBDA k : IF R1 = 1 THEN 1 ELSE k, LAMBDA k : IF R2 = 1 THEN 1 ELSE k, full)

MultiplyPath(u, f, full) ==
    IF ~full THEN "light"
    ELSE IF f.cls \in {"Rank1", "Linear", "Const"} /\ u.cS
         THEN (IF f.cls = "Rank1" THEN "sherman" ELSE "reuse")
         ELSE "invert"
=============================================================================
