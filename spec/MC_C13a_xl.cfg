CONSTANTS
  P = 46337
  Ds = {4}
  Rs = {1, 5}
  Offs = {0}
  Ops = {"kl"}
  PdfKinds = {"PDF:S", "DiagPDF:S"}
INIT Init
NEXT Next
CHECK_DEADLOCK FALSE
PROPERTY Prop_Frame
INVARIANT Inv_CacheCoherent
INVARIANT Inv_PdfNormalised
INVARIANT Inv_EntropyKL
INVARIANT Inv_Export
