----------------------------- MODULE PytreeTable -----------------------------
(* Placeholder so that the specification parses stand-alone; harness/classtable.py regenerates this module *)
(* from the current code in the scratch directory of every C18 run.                                        *)
Table == [ConjugateFactor |-> [fields |-> {"Lambda", "nu", "ln_beta"}, init |-> {"Lambda", "nu", "ln_beta"},
                               states |-> [fresh |-> [dyn |-> {"Lambda", "nu", "ln_beta"}, stat |-> {}, bad |-> {}]],
                               todict |-> {"Lambda", "nu", "ln_beta"}]]
=============================================================================
