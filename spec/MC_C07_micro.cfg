CONSTANTS
  P = 46337
  Dims = {22, 12, 21}
  RPairs = {11, 12, 21}
  CondKinds = {"Cond", "CondDiag", "CondId", "CondIdDiag"}
  Modes = {"S"}
  Ops = {"joint"}
  Offs = {20}
INIT Init
NEXT Next
CHECK_DEADLOCK FALSE
PROPERTY Prop_Frame
INVARIANT Inv_CacheCoherent
INVARIANT Inv_PdfNormalised
INVARIANT Inv_ReportedMass
INVARIANT Inv_CondCoherent
INVARIANT Inv_Transform
INVARIANT Inv_Export
