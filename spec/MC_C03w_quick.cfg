CONSTANTS
  P = 46337
  Ds = {2}
  Rs = {1, 2}
  Kinds = {"Measure", "PDF:INT", "DiagMeasure"}
  Keys = {"x", "xx'", "(Ax+a)'(Bx+b)", "(Ax+a)(Bx+b)'"}
  MaxDeviate = 1
  KLMs = {123}
  FactorKindsC14 = {"Factor", "Rank1"}
  Warm = {"light", "full", "normalize", "integral"}
INIT Init
NEXT Next
CHECK_DEADLOCK FALSE
PROPERTY Prop_Frame
INVARIANT Inv_CacheCoherent
INVARIANT Inv_ReportedMass
INVARIANT Inv_IntegrateTable
INVARIANT Inv_Export
