CONSTANTS
  P = 46337
  Ds = {2, 3}
  Rs = {1, 2}
  Kinds = {"DiagMeasure", "DiagPDF:S"}
  Keys = {"x", "(Ax+a)", "xx'", "(Ax+a)'(Bx+b)", "(Ax+a)(Bx+b)'", "(Ax+a)(Bx+b)'(Cx+c)", "(Ax+a)'(Bx+b)(Cx+c)'", "x(A'x + a)x'", "xb'xx'", "(Ax+a)'(Bx+b)(Cx+c)'(Dx+d)", "(Ax+a)(Bx+b)'(Cx+c)(Dx+d)'"}
  MaxDeviate = 0
  KLMs = {123, 312}
  FactorKindsC14 = {"Rank1", "Linear", "Const"}
  Warm = {"none"}
INIT Init
NEXT Next
CHECK_DEADLOCK FALSE
PROPERTY Prop_Frame
INVARIANT Inv_CacheCoherent
INVARIANT Inv_ReportedMass
INVARIANT Inv_IntegrateTable
INVARIANT Inv_Export
