CONSTANTS
  P = 46337
  Ds = {1, 2, 3}
  Rs = {1, 2, 3, 4}
  Kinds = {"Measure", "PDF:S", "DiagMeasure"}
  Keys = {}
  MaxDeviate = 0
  KLMs = {123}
  FactorKindsC14 = {"Factor", "Rank1", "Linear", "Const", "Measure", "PDF:S"}
  Warm = {"none"}
INIT Init
NEXT Next
CHECK_DEADLOCK FALSE
PROPERTY Prop_Frame
INVARIANT Inv_CacheCoherent
INVARIANT Inv_ReportedMass
INVARIANT Inv_Export
