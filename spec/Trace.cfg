CONSTANTS
  P = 46337
INIT TInit
NEXT TNext
CHECK_DEADLOCK FALSE
PROPERTY Prop_Frame
INVARIANT Inv_CacheCoherent
INVARIANT Inv_PdfNormalised
INVARIANT Inv_PdfIsNormal
INVARIANT Inv_ReportedMass
INVARIANT Inv_CondCoherent
INVARIANT Inv_Pointwise
INVARIANT Inv_Normalize
INVARIANT Inv_Slice
INVARIANT Inv_Marginal
INVARIANT Inv_ConditionOn
INVARIANT Inv_CondOnX
INVARIANT Inv_SetY
INVARIANT Inv_Transform
INVARIANT Inv_Update
INVARIANT Inv_UpdateSigma
INVARIANT Inv_EntropyKL
INVARIANT Inv_Generalize
