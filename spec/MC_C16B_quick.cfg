CONSTANTS
  P = 46337
  Classes = {"LRBF", "LSEM", "HetExp", "HetCosh"}
  Dims = {11, 12, 21}
  Dks = {1, 2}
  Rs = {1, 2}
  Offs = {0}
INIT Init
NEXT Next
CHECK_DEADLOCK FALSE
PROPERTY Prop_Frame
INVARIANT Inv_CacheCoherent
INVARIANT Inv_PdfNormalised
INVARIANT Inv_KernelUnitHeight
INVARIANT Inv_KernelExpectation
INVARIANT Inv_HetSh
INVARIANT Inv_Export
