CONSTANTS
  P = 46337
  Ds = {2, 3}
  Rs = {1, 2}
  Offs = {0}
  Ops = {"marginal", "linear_sum", "condition_on", "condition_on_explicit", "entropy"}
  PdfKinds = {"DiagPDF:S", "DiagPDF:SLD"}
INIT Init
NEXT Next
CHECK_DEADLOCK FALSE
PROPERTY Prop_Frame
INVARIANT Inv_CacheCoherent
INVARIANT Inv_PdfNormalised
INVARIANT Inv_ReportedMass
INVARIANT Inv_Marginal
INVARIANT Inv_LinearSum
INVARIANT Inv_ConditionOn
INVARIANT Inv_EntropyKL
INVARIANT Inv_CondCoherent
INVARIANT Inv_CondOnX
INVARIANT Inv_Export
