CONSTANTS
  P = 46337
  Family = "M"
  Depth = 3
  MaxHeap = 5
  MaxR = 9
  Ds = {2}
  InitKinds = {"Measure", "DiagMeasure", "PDF:S"}
  FactorKinds = {"Factor", "Rank1", "Linear", "Const"}
  CondKinds = {}
  RInit = {3}
  SampleMod = 2
  SampleRes = 0
  Rich = TRUE
INIT Init
NEXT Next
CHECK_DEADLOCK FALSE
PROPERTY Prop_Frame
INVARIANT Inv_CacheCoherent
INVARIANT Inv_PdfNormalised
INVARIANT Inv_ReportedMass
INVARIANT Inv_Pointwise
INVARIANT Inv_Normalize
INVARIANT Inv_Slice
INVARIANT Inv_Export
