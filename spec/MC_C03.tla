------------------------------- MODULE MC_C03 -------------------------------
(***************************************************************************)
(* C03: integrate(key, ...) = total mass x exact Gaussian moment, for the  *)
(* 12 keys of the integration table, every coefficient mode (omitted /     *)
(* shared / per component, for matrix and vector independently), output    *)
(* dimensions K != L != M, measures (mass != 1) and densities.             *)
(* Also C14 (first clause): integrate('log u(x)', factor=f).               *)
(* Scenario: 1 construct u   2 integrate(key, coefficients)                *)
(***************************************************************************)
EXTENDS GT, FiniteSets

CONSTANTS Ds, Rs, Kinds, Keys, MaxDeviate, KLMs, FactorKindsC14,
          Warm     \* cache state of the measure before the integral: subset of {"none", "light", "full", "normalize", "integral"}

n == Len(hist)
u1 == heap[1]
d0 == NumD(u1)

\* asymmetric integer coefficient matrices / vectors, distinct per (t, r)
\* coefficients: integers and halves mixed (an all-integer menu hides dtype / truncation slips; all-integer cases keep the
\* bit-exact comparison of the exact mode)
CoefMat(K, d, t) == Q([a \in 1..K |-> [b \in 1..d |-> ((3 * a + 5 * b + 2 * t + a * b * t) % 7) - 3]], IF t % 3 = 2 THEN 2 ELSE 1)
CoefVec(K, t) == Q([a \in 1..K |-> ((2 * a + 3 * t) % 5) - 2], 1 + (t % 2))

\* mode codes 1..9 = (matrix mode, vector mode)
MM(c) == <<"none", "shared", "per">>[((c - 1) \div 3) + 1]
VM(c) == <<"none", "shared", "per">>[((c - 1) % 3) + 1]
Default == 5    \* shared matrix, shared vector

Coef(c, K, t, R) ==
    [mm |-> MM(c), mat |-> IF MM(c) = "none" THEN <<>> ELSE IF MM(c) = "shared" THEN <<CoefMat(K, d0, t)>>
                            ELSE MkSeq(R, LAMBDA r : CoefMat(K, d0, t + r)),
     vm |-> VM(c), vec |-> IF VM(c) = "none" THEN <<>> ELSE IF VM(c) = "shared" THEN <<CoefVec(K, t)>>
                            ELSE MkSeq(R, LAMBDA r : CoefVec(K, t + 2 * r))]

\* number of forms of each key and which row count each form has: K, L, M from klm = 100K + 10L + M
NForms(key) ==
    CASE key \in {"x", "xx'"} -> 0
      [] key = "(Ax+a)" -> 1
      [] key \in {"(Ax+a)'(Bx+b)", "(Ax+a)(Bx+b)'"} -> 2
      [] key \in {"(Ax+a)(Bx+b)'(Cx+c)", "(Ax+a)'(Bx+b)(Cx+c)'"} -> 3
      [] key \in {"(Ax+a)'(Bx+b)(Cx+c)'(Dx+d)", "(Ax+a)(Bx+b)'(Cx+c)(Dx+d)'"} -> 4
      [] OTHER -> 0
RowsOf(key, klm) ==
    LET K == klm \div 100 L == (klm \div 10) % 10 M == klm % 10 IN
    CASE key = "(Ax+a)" -> <<K, 0, 0, 0>>
      [] key = "(Ax+a)'(Bx+b)" -> <<K, K, 0, 0>>
      [] key = "(Ax+a)(Bx+b)'" -> <<K, L, 0, 0>>
      [] key = "(Ax+a)(Bx+b)'(Cx+c)" -> <<K, L, L, 0>>
      [] key = "(Ax+a)'(Bx+b)(Cx+c)'" -> <<K, K, L, 0>>
      [] key = "(Ax+a)'(Bx+b)(Cx+c)'(Dx+d)" -> <<K, K, L, L>>
      [] key = "(Ax+a)(Bx+b)'(Cx+c)(Dx+d)'" -> <<K, L, L, M>>
      [] OTHER -> <<0, 0, 0, 0>>

\* mode words: at most MaxDeviate forms deviate from the default mode
Words(nf) == {w \in [1..4 -> 1..9] :
                /\ \A k \in 1..4 : k > nf => w[k] = Default
                /\ Cardinality({k \in 1..nf : w[k] # Default}) <= MaxDeviate}

\* a form whose matrix is omitted is the identity: its row count is D; the paired forms must then have D rows too
RowsOK(key, klm, w) ==
    LET rw == RowsOf(key, klm) IN
    \A k \in 1..NForms(key) : (MM(w[k]) = "none") => rw[k] = d0

General(key, klm, w) ==
    LET rw == RowsOf(key, klm) R == NumR(u1)
        cf(k) == IF k <= NForms(key) THEN Coef(w[k], rw[k], k, R) ELSE NoCoef
    IN AIntegrate(1, key, cf(1), cf(2), cf(3), cf(4))

\* x(A'x + a)x' and xb'xx': the vector-valued coefficient is always supplied (shared or per component)
Special(key, c) ==
    LET R == NumR(u1) IN
    IF key = "x(A'x + a)x'"
    THEN /\ MM(c) # "none" /\ VM(c) # "none"
         /\ AIntegrate(1, key, Coef(c, 1, 1, R), NoCoef, NoCoef, NoCoef)
    ELSE /\ MM(c) # "none" /\ VM(c) = "none"      \* b_vec: 1-D [D] or 2-D [R, D]; carried as the single row of B
         /\ AIntegrate(1, key, NoCoef, Coef(c, 1, 2, R), NoCoef, NoCoef)

NewU(k, d, R) ==
    CASE k \in {"Measure", "DiagMeasure"} -> ANewMeasure(k, d, R, 0)
      [] k = "PDF:S" -> ANewPdf("PDF", "S", d, R, 0)
      [] k = "PDF:INT" -> ANewPdfInt(d, R, 0)
      [] k = "DiagPDF:S" -> ANewPdf("DiagPDF", "S", d, R, 0)

NewF(k, d, R, s) ==
    CASE k \in {"Measure"} -> ANewMeasure(k, d, R, s)
      [] k = "PDF:S" -> ANewPdf("PDF", "S", d, R, s)
      [] OTHER -> ANewFactor(k, d, R, s)

Init == heap = <<>> /\ hist = <<>>

Nop == Emit(heap, Step("Nop", [x |-> 0], NoObj, 0, NoObj, 0, NoObj, NoObj))
WarmStep(w) ==
    CASE w = "none" -> Nop
      [] w = "light" -> AQuery(1, "log_integral_light")       \* lnZ cached, covariance possibly not
      [] w = "full" -> AQuery(1, "log_integral")
      [] w = "normalize" -> ANormalize(1)
      [] w = "integral" -> AIntegrate(1, "x", NoCoef, NoCoef, NoCoef, NoCoef)      \* an earlier integral on the same object

Next ==
    \/ n = 0 /\ \E d \in Ds, k \in Kinds, R \in Rs : NewU(k, d, R)
    \/ n = 1 /\ \E w \in Warm : WarmStep(w)
    \/ n = 2 /\ \E key \in Keys :
          IF key \in {"x(A'x + a)x'", "xb'xx'"} THEN \E c \in 1..9 : Special(key, c)
          ELSE \E klm \in KLMs, w \in Words(NForms(key)) : RowsOK(key, klm, w) /\ General(key, klm, w)
    \/ n = 2 /\ \E k \in FactorKindsC14, R \in {1, NumR(u1)} : NewF(k, d0, R, 1)
    \/ n = 3 /\ hist[3].act # "Integrate" /\ AIntegrateLogFactor(1, 2)

Done == \/ n = 3 /\ hist[3].act = "Integrate"
        \/ n = 4
Inv_Export == Export(Done)
=============================================================================
