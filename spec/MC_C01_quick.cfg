CONSTANTS
  P = 46337
  Ds = {1, 2}
  R1s = {1, 2}
  R2s = {1, 3}
  Offs = {0}
  ExtraFK = {}
INIT Init
NEXT Next
CHECK_DEADLOCK FALSE
INVARIANT Inv_CacheCoherent
INVARIANT Inv_PdfNormalised
INVARIANT Inv_ReportedMass
INVARIANT Inv_Pointwise
INVARIANT Inv_Export
