-------------------------------- MODULE MC_NN --------------------------------
(***************************************************************************)
(* NN-controlled conditionals (C07 - C10, C13, C14, C15): every operation  *)
(* with the control fixed equals the operation on the linear conditional   *)
(* set_control_variable(u).                                                *)
(* Scenario: 1 NN conditional  2 density p (over x, or over (y,x) for      *)
(* integrate_log_conditional)  3 one NN operation with control u, or       *)
(* set_control_variable(u) followed by the plain operation.                *)
(***************************************************************************)
EXTENDS GT

CONSTANTS Dims, Dus, Rxs, Offs, Ops

n == Len(hist)
Init == heap = <<>> /\ hist = <<>>
c1 == heap[1]
NeedsJointQ == Ops \subseteq {"int_log_cond"}

Next ==
    \/ n = 0 /\ \E dd \in Dims, du \in Dus, s \in Offs : ANewNN(dd \div 10, dd % 10, du, s)
    \/ n = 1 /\ \E R \in Rxs, k \in {"S", "SLD"} : ANewPdf("PDF", k, IF NeedsJointQ THEN c1.dx + c1.dy ELSE c1.dx, R, 1)
    \/ n = 2 /\ \E op \in Ops, ui \in 1..3 :
          LET qU == <<UMenu(c1.du)[ui]>> p == heap[2] IN
          \/ (op \in {"joint", "marginal", "conditional", "conditional_entropy", "mutual_information", "int_log_cond"} /\ ANNOp(op, 1, 2, qU, <<>>))
          \/ (op = "int_log_cond_y" /\ ANNOp(op, 1, 2, qU, Pick(PointMenu(c1.dy), NumR(p), ui)))
          \/ (op = "set_y" /\ \E N \in {1, 2} : ANNOp(op, 1, 0, qU, Pick(PointMenu(c1.dy), N, ui)))
          \/ (op = "cond_on_x" /\ \E N \in {1, 2} : ANNOp(op, 1, 0, qU, Pick(PointMenu(c1.dx), N, ui)))
          \/ (op = "set_control" /\ \E R \in {1, 2} : ASetControl(1, Pick(UMenu(c1.du), R, ui)))
    \/ n = 3 /\ hist[3].act = "SetControl" /\ TransformOK(heap[3], heap[2]) /\ \E k \in {"joint", "conditional"} : ATransform(k, 3, 2)
    \/ n = 3 /\ hist[3].act = "NNOp" /\ hist[3].id # 0 /\ IsMeasure(heap[3]) /\ AEvaluate(3, LatticeSeq(NumD(heap[3])), FALSE, "evaluate_ln")
    \/ n = 3 /\ hist[3].act = "NNOp" /\ hist[3].id # 0 /\ ~IsMeasure(heap[3]) /\ ~IsCond(heap[3]) /\ AEvaluate(3, LatticeSeq(NumD(heap[3])), FALSE, "evaluate_ln")

Done == (n = 3 /\ ~ENABLED Next) \/ n = 4
Inv_Export == Export(Done)
=============================================================================
