------------------------------- MODULE MC_MUT -------------------------------
(***************************************************************************)
(* Repeating a call after an operand was mutated IN PLACE.                 *)
(*                                                                         *)
(* The library has a handful of in-place mutators (GaussianPDF.update,     *)
(* normalize, update_Sigma, and the cache-filling queries).  Every other   *)
(* operation is a function of the CURRENT value of its operands: a result  *)
(* may not depend on what the same Python objects held at an earlier call  *)
(* (memoisation keyed on object identity, a cache that survives a          *)
(* mutation).  The specification is functional in the heap, so the second  *)
(* call is specified from the mutated operand; the replay performs both    *)
(* calls on the same live objects.                                         *)
(*                                                                         *)
(* Family "cond":  1 c (R = 1)   2 p (R = 2)   3 q (R = 1)                 *)
(*                 4 op(c, p)    5 mutate      6 op(c, p) again   7 follow *)
(*   mutate: p.update([k], q)  |  c.update_Sigma(S')                       *)
(* Family "pdf":   1 p (R = 2)   2 r (R = 2 or 1)   3 q (R = 1)            *)
(*                 4 op(p, r)    5 p.update([k], q) | r.update([k], q)     *)
(*                 6 op(p, r) again                                        *)
(* Family "meas":  1 u (measure) 2 f (factor)                              *)
(*                 3 op(u, f)    4 u.normalize()    5 op(u, f) again       *)
(*                 6 evaluate    7 log_integral                            *)
(***************************************************************************)
EXTENDS GT

CONSTANTS Family, Dims, CondKinds, PKinds, Ops, Offs

n == Len(hist)
Init == heap = <<>> /\ hist = <<>>

NewP(pk, d, R, s) == ANewPdf(IF pk = "DiagPDF:S" THEN "DiagPDF" ELSE "PDF", IF pk = "PDF:SLD" THEN "SLD" ELSE "S", d, R, s)

\* ---------------------------------------------------------------- cond
JointQ == Ops \subseteq {"int_log_cond"}
CondOp(k) ==
    CASE k \in {"joint", "marginal", "conditional"} -> ATransform(k, 1, 2)
      [] k \in {"conditional_entropy", "mutual_information"} -> AInfo(k, 1, 2)
      [] k = "int_log_cond" -> AIntLogCond(1, 2)
      [] k = "int_log_cond_y" -> AIntLogCondY(1, 2, 0, "callable")
      [] k = "int_log_cond_y2" -> AIntLogCondY(1, 2, 0, "y")
      [] k = "defer" -> AIntLogCondYDefer(1, 2)
CondNext ==
    \/ n = 0 /\ \E dd \in Dims, k \in CondKinds, bm \in {"given"}, s \in Offs :
                   ANewCond(k, "S", IF IsIdCond(k) THEN "none" ELSE bm, dd \div 10, dd % 10, 1, s, s)
    \/ n = 1 /\ \E pk \in PKinds : NewP(pk, IF JointQ THEN CDx(heap[1]) + CDy(heap[1]) ELSE CDx(heap[1]), 2, 1)
    \/ n = 2 /\ NewP("PDF:S", NumD(heap[2]), 1, 3)
    \/ n = 3 /\ \E k \in Ops : CondOp(k)
    \/ n = 4 /\ (\/ \E k \in {1, 2} : AUpdate(2, <<k>>, 3)
                 \/ AUpdateSigma(1, 2))
    \/ n = 5 /\ hist[4].act = "IntLogCondYDefer" /\ AApplyClosure(4, 0)     \* the function requested BEFORE the mutation
    \/ n = 5 /\ hist[4].act # "IntLogCondYDefer" /\
                CondOp(IF hist[4].act = "IntLogCondY" /\ hist[4].a.via = "y" THEN "int_log_cond_y2"
                        ELSE IF hist[4].act = "IntLogCondY" THEN "int_log_cond_y"
                        ELSE IF hist[4].act = "IntLogCond" THEN "int_log_cond"
                        ELSE hist[4].a.kind)
    \/ n = 6 /\ hist[6].id # 0 /\
                IF IsCond(heap[hist[6].id]) THEN ACondOnX(hist[6].id, 2, 0, "call")
                ELSE AEvaluate(hist[6].id, LatticeSeq(NumD(heap[hist[6].id])), FALSE, "evaluate_ln")
CondDone == \/ n = 6 /\ hist[6].id = 0
            \/ n = 7

\* ---------------------------------------------------------------- pdf
PdfOp(k) ==
    CASE k = "kl" -> AKL(1, 2)
      [] k = "kl_rev" -> AKL(2, 1)
      [] k = "entropy" -> AEntropy(1)
      [] k = "marginal" -> AMarginal(1, <<NumD(heap[1])>>)
      [] k = "condition_on" -> AConditionOn(1, <<1>>)
PdfNext ==
    \/ n = 0 /\ \E dd \in Dims, pk \in PKinds, s \in Offs : NewP(pk, dd % 10, 2, s)
    \/ n = 1 /\ \E pk \in PKinds, R \in {1, 2} : NewP(pk, NumD(heap[1]), R, 2)
    \/ n = 2 /\ NewP("PDF:S", NumD(heap[1]), 1, 3)
    \/ n = 3 /\ \E k \in Ops : PdfOp(k)
    \/ n = 4 /\ (\/ \E k \in {1, 2} : AUpdate(1, <<k>>, 3)
                 \/ (hist[4].act = "KL" /\ AUpdate(2, <<1>>, 3)))
    \/ n = 5 /\ (\/ hist[4].act = "KL" /\ AKL(hist[4].a.i, hist[4].a.j)
                 \/ hist[4].act = "Entropy" /\ AEntropy(1)
                 \/ hist[4].act = "Marginal" /\ AMarginal(1, <<NumD(heap[1])>>)
                 \/ hist[4].act = "ConditionOn" /\ AConditionOn(1, <<1>>))
PdfDone == n = 6

\* ---------------------------------------------------------------- meas
MeasOp(k) ==
    CASE k = "multiply" -> AMultiply(1, 2, TRUE, "multiply")
      [] k = "multiply_light" -> AMultiply(1, 2, FALSE, "multiply")
      [] k = "hadamard" -> AHadamard(1, 2, TRUE)
MeasNext ==
    \/ n = 0 /\ \E dd \in Dims, k \in {"Measure", "DiagMeasure"}, s \in Offs : ANewMeasure(k, dd % 10, 2, s)
    \/ n = 1 /\ \E k \in {"Factor", "Rank1", "Linear", "Const"} : ANewFactor(k, NumD(heap[1]), 2, 1)
    \/ n = 2 /\ \E k \in Ops : MeasOp(k)
    \/ n = 3 /\ ANormalize(1)
    \/ n = 4 /\ MeasOp(IF hist[3].act = "Hadamard" THEN "hadamard" ELSE IF hist[3].a.full THEN "multiply" ELSE "multiply_light")
    \/ n = 5 /\ AEvaluate(4, LatticeSeq(NumD(heap[1])), FALSE, "evaluate_ln")
    \/ n = 6 /\ AQuery(4, "log_integral")
MeasDone == n = 7

Next == CASE Family = "cond" -> CondNext [] Family = "pdf" -> PdfNext [] Family = "meas" -> MeasNext
Done == CASE Family = "cond" -> CondDone [] Family = "pdf" -> PdfDone [] Family = "meas" -> MeasDone
Inv_Export == Export(Done)
=============================================================================
