CONSTANTS
  P = 46337
  Family = "C"
  Depth = 3
  MaxHeap = 5
  MaxR = 4
  Ds = {2}
  InitKinds = {}
  FactorKinds = {}
  CondKinds = {"Cond", "CondDiag", "CondId", "CondIdDiag"}
  RInit = {1, 2}
  SampleMod = 1
  SampleRes = 0
  Rich = FALSE
INIT Init
NEXT Next
CHECK_DEADLOCK FALSE
PROPERTY Prop_Frame
INVARIANT Inv_CacheCoherent
INVARIANT Inv_PdfNormalised
INVARIANT Inv_ReportedMass
INVARIANT Inv_CondCoherent
INVARIANT Inv_Pointwise
INVARIANT Inv_Slice
INVARIANT Inv_Transform
INVARIANT Inv_SetY
INVARIANT Inv_CondOnX
INVARIANT Inv_ConditionOn
INVARIANT Inv_Marginal
INVARIANT Inv_Update
INVARIANT Inv_UpdateSigma
INVARIANT Inv_Export
