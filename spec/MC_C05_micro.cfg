CONSTANTS
  P = 46337
  Ds = {2, 3}
  Rs = {1, 2}
  Offs = {20}
  Ops = {"marginal", "linear_sum"}
  PdfKinds = {"PDF:S", "PDF:SL", "PDF:SLD", "DiagPDF:S"}
INIT Init
NEXT Next
CHECK_DEADLOCK FALSE
PROPERTY Prop_Frame
INVARIANT Inv_CacheCoherent
INVARIANT Inv_PdfNormalised
INVARIANT Inv_ReportedMass
INVARIANT Inv_Marginal
INVARIANT Inv_LinearSum
INVARIANT Inv_Export
