------------------------------- MODULE MC_C16 -------------------------------
(***************************************************************************)
(* C16 / C17 (first clause): approximate conditionals.                     *)
(* Scenario: 1 density p(x)  2 approximate conditional  3 one of:          *)
(*   condition_on_x at exact points; marginal / joint / conditional        *)
(*   transformation (moment matching).                                     *)
(***************************************************************************)
EXTENDS GT

CONSTANTS Classes, Dims, Dks, Das, Rs, Offs, JointQ,
          Bound      \* TRUE: also the ingredients of the variational lower bound at given expansion points (C17, clause 2)     \* JointQ: object 1 is a density over (y, x) (for integrate_log_conditional)

n == Len(hist)
Init == heap = <<>> /\ hist = <<>>
dx1 == NumD(heap[1])
Sq(cls) == cls \in {"HetStep", "HetRelu"}

Next ==
    \/ n = 0 /\ \E dd \in Dims, R \in Rs, s \in Offs :
          \/ ANewPdf("PDF", "S", IF JointQ THEN (dd % 10) + (dd \div 10) ELSE dd % 10, R, s)
          \/ (~JointQ /\ R = 1 /\ dd % 10 <= 2 /\ ANewPdfChol(dd % 10, 1, s))
    \/ n = 1 /\ JointQ /\ \E cls \in Classes \cap {"LRBF", "LSEM"}, dd \in Dims, dk \in Dks, s \in Offs :
          /\ (dd % 10) + (dd \div 10) = dx1
          /\ ANewFeat(cls, dd \div 10, dd % 10, dk, s)
    \/ n = 2 /\ JointQ /\ AFeatIntLogCond(2, 1)
    \/ n = 1 /\ ~JointQ /\ \E cls \in Classes, dd \in Dims, dk \in Dks, s \in Offs :
          /\ dd % 10 = dx1
          /\ IF cls \in {"LRBF", "LSEM"} THEN hist[1].a.mode = "S" /\ ~("chol" \in DOMAIN hist[1].a) /\ ANewFeat(cls, dd \div 10, dx1, dk, s)
             ELSE \E da \in Das :
                    /\ Sq(cls) <=> ("chol" \in DOMAIN hist[1].a)
                    /\ \E zw \in (IF cls \in {"HetExp", "HetCosh"} /\ da = dd \div 10 THEN BOOLEAN ELSE {FALSE}) :
                          ANewHetZ(cls, dd \div 10, da, dk, dx1, IF Sq(cls) THEN hist[1].a.ci + 3 * s ELSE s, zw)
    \/ n = 2 /\ ~JointQ /\
                (\/ (IsFeat(heap[2]) /\ \E N \in {1, 2} : AFeatCondOnX(2, N, 0))
                 \/ (IsFeat(heap[2]) /\ \E via \in {"callable", "y"} : AFeatIntLogCondY(2, 1, 1, via))
                 \/ (IsHet(heap[2]) /\ \E N \in {1, 3} : AHetCondOnX(2, N, 0))
                 \/ (IsHet(heap[2]) /\ HDa(heap[2]) = HDy(heap[2]) /\ NumR(heap[1]) = 1 /\ \E s \in {0, 1} : AHetIntLogCondY(2, 1, s))
                 \* k_func depends on (W, p_x) only: one output dimension and square A suffice
                 \/ (Bound /\ IsHet(heap[2]) /\ NumR(heap[1]) = 1 /\ HDy(heap[2]) = 1 /\ HDa(heap[2]) = 2 /\
                     \E u \in 1..HDk(heap[2]), oi \in 1..Len(OMEGAS) : AHetK(2, 1, u, oi))
                 \/ (Bound /\ IsHet(heap[2]) /\ \E u \in 1..HDk(heap[2]), oi \in 1..Len(OMEGAS) : AHetLBI(2, 1, u, oi, 1))
                 \/ (Bound /\ IsHet(heap[2]) /\ \E s \in {0, 1} : AHetLBAssembly(2, 1, s))
                 \/ \E k \in {"marginal", "joint", "conditional"} :
                       IF IsFeat(heap[2]) THEN AFeatTransform(k, 2, 1) ELSE AHetTransform(k, 2, 1))

Done == n = 3
Inv_Export == Export(Done)
=============================================================================
