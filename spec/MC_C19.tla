------------------------------- MODULE MC_C19 -------------------------------
(***************************************************************************)
(* C19: samples follow the density's law and are reproducible.             *)
(* Scenario: 1 density with exactly known Cholesky factor, pairwise        *)
(* distinct strongly correlated covariances  2 sample(key, n) with         *)
(*   - a given integer stream and every one-hot basis stream (extracts the *)
(*     full coefficient tensor of the code: independence across draws and  *)
(*     components, pairing of factor and component, shape (n, R, D)),      *)
(*   - the real generator with several keys (structure, reproducibility,   *)
(*     statistical sanity).                                                *)
(***************************************************************************)
EXTENDS GT

CONSTANTS Ds, Rs, Offs, NSamples, Seeds,
          BigN       \* large sample counts (size-dependent branches: block-wise drawing, chunking), real generator only

n == Len(hist)
Init == heap = <<>> /\ hist = <<>>

Next ==
    \/ n = 0 /\ \E cls \in {"PDF", "DiagPDF"}, d \in Ds, R \in Rs, s \in Offs : ANewPdfCholC(cls, d, R, s)
    \/ n = 1 /\ LET p == heap[1] IN
         \/ \E ns \in NSamples : ASample(1, ns, "stream", "int", 0, 0, 0, 0)
         \/ \E s0 \in 1..2, r0 \in 1..NumR(p), c0 \in 1..NumD(p) : ASample(1, 2, "stream", "onehot", s0, r0, c0, 0)
         \/ \E sd \in Seeds, ns \in NSamples : ASample(1, ns, "key", "int", 0, 0, 0, sd)
         \/ \E sd \in Seeds : ASample(1, 20000, "stat", "int", 0, 0, 0, sd)
         \/ \E ns \in BigN : NumR(p) * NumD(p) <= 4 /\ hist[1].a.ci = 0 /\ ASample(1, ns, "key", "int", 0, 0, 0, 7)

Done == n = 2
Inv_Export == Export(Done)
=============================================================================
