CONSTANTS
  P = 46337
  Ds = {1, 2}
  Rs = {1, 2, 3, 4, 5, 6, 7, 8, 9}
  Offs = {0}
INIT Init
NEXT Next
CHECK_DEADLOCK FALSE
PROPERTY Prop_Frame
INVARIANT Inv_CacheCoherent
INVARIANT Inv_PdfNormalised
INVARIANT Inv_ReportedMass
INVARIANT Inv_Pointwise
INVARIANT Inv_Export
