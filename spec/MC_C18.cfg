INIT PInit
NEXT PNext
CHECK_DEADLOCK FALSE
INVARIANT Inv_NeverRejected
INVARIANT Inv_TableComplete
