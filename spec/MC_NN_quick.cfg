CONSTANTS
  P = 46337
  Dims = {11, 12, 21, 22}
  Dus = {1, 2}
  Rxs = {1, 2}
  Offs = {0, 1}
  Ops = {"joint", "marginal", "conditional", "conditional_entropy", "mutual_information", "int_log_cond_y", "set_y", "cond_on_x", "set_control"}
INIT Init
NEXT Next
CHECK_DEADLOCK FALSE
PROPERTY Prop_Frame
INVARIANT Inv_CacheCoherent
INVARIANT Inv_PdfNormalised
INVARIANT Inv_CondCoherent
INVARIANT Inv_Transform
INVARIANT Inv_Export
