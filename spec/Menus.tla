------------------------------- MODULE Menus -------------------------------
(***************************************************************************)
(* Exact input menus.  Every menu entry is given by small integers         *)
(* [n |-> integer array, d |-> positive integer] meaning n/d, so that it   *)
(* can be handed to the implementation exactly (the replay harness builds  *)
(* float64 arrays from the same integers) and mapped into the field        *)
(* exactly (QS/QV/QM).  Matrices are symmetric positive definite with      *)
(* condition number < 1e2, non-diagonal (so that transposition / index     *)
(* mistakes are visible), pairwise non-commuting; vectors and constants    *)
(* are non-zero.                                                           *)
(***************************************************************************)
EXTENDS MeasureOps

Q(n, d) == [n |-> n, d |-> d]

\* exact rational -> field
QS(q) == FQ(q.n, q.d)
QV(q) == MkVec(Len(q.n), LAMBDA i : FQ(q.n[i], q.d))
QM(q) == MkMat(Len(q.n), Len(q.n[1]), LAMBDA i, j : FQ(q.n[i][j], q.d))

\* symmetric positive definite matrices, by dimension
SPD(d) ==
    CASE d = 1 -> << Q(<<<<2>>>>, 1), Q(<<<<1>>>>, 1), Q(<<<<3>>>>, 2), Q(<<<<5>>>>, 4) >>
      [] d = 2 -> << Q(<< <<2, 1>>, <<1, 2>> >>, 1),
                     Q(<< <<3, -1>>, <<-1, 1>> >>, 1),
                     Q(<< <<5, 2>>, <<2, 2>> >>, 2),
                     Q(<< <<2, -1>>, <<-1, 3>> >>, 3) >>
      [] d = 3 -> << Q(<< <<2, 1, 0>>, <<1, 2, 1>>, <<0, 1, 2>> >>, 1),
                     Q(<< <<3, -1, 1>>, <<-1, 2, 0>>, <<1, 0, 1>> >>, 1),
                     Q(<< <<4, 2, -2>>, <<2, 5, 1>>, <<-2, 1, 6>> >>, 2),
                     Q(<< <<2, 0, 1>>, <<0, 1, 0>>, <<1, 0, 3>> >>, 3) >>
      [] d = 4 -> << Q(<< <<2, 1, 0, 0>>, <<1, 2, 1, 0>>, <<0, 1, 2, 1>>, <<0, 0, 1, 2>> >>, 1),
                     Q(<< <<3, -1, 1, 0>>, <<-1, 2, 0, 1>>, <<1, 0, 2, 0>>, <<0, 1, 0, 2>> >>, 2),
                     Q(<< <<4, 1, 0, -1>>, <<1, 3, 1, 0>>, <<0, 1, 2, 0>>, <<-1, 0, 0, 1>> >>, 3) >>

\* diagonal positive matrices
DPD(d) ==
    CASE d = 1 -> << Q(<<<<2>>>>, 1), Q(<<<<1>>>>, 3), Q(<<<<3>>>>, 2), Q(<<<<5>>>>, 4) >>
      [] d = 2 -> << Q(<< <<2, 0>>, <<0, 1>> >>, 1),
                     Q(<< <<1, 0>>, <<0, 3>> >>, 2),
                     Q(<< <<5, 0>>, <<0, 2>> >>, 3),
                     Q(<< <<1, 0>>, <<0, 4>> >>, 1) >>
      [] d = 3 -> << Q(<< <<2, 0, 0>>, <<0, 1, 0>>, <<0, 0, 3>> >>, 1),
                     Q(<< <<1, 0, 0>>, <<0, 3, 0>>, <<0, 0, 5>> >>, 2),
                     Q(<< <<4, 0, 0>>, <<0, 1, 0>>, <<0, 0, 2>> >>, 3),
                     Q(<< <<3, 0, 0>>, <<0, 2, 0>>, <<0, 0, 1>> >>, 1) >>
      [] d = 4 -> << Q(<< <<2, 0, 0, 0>>, <<0, 1, 0, 0>>, <<0, 0, 3, 0>>, <<0, 0, 0, 5>> >>, 1),
                     Q(<< <<1, 0, 0, 0>>, <<0, 3, 0, 0>>, <<0, 0, 5, 0>>, <<0, 0, 0, 2>> >>, 2) >>

\* vectors
VEC(d) ==
    CASE d = 1 -> << Q(<<1>>, 1), Q(<<-1>>, 2), Q(<<3>>, 2), Q(<<-2>>, 1) >>
      [] d = 2 -> << Q(<<1, -1>>, 1), Q(<<-1, 2>>, 2), Q(<<3, 1>>, 2), Q(<<0, -2>>, 1) >>
      [] d = 3 -> << Q(<<1, -1, 2>>, 1), Q(<<-1, 2, 1>>, 2), Q(<<3, 1, -2>>, 2), Q(<<0, -2, 1>>, 1) >>
      [] d = 4 -> << Q(<<1, -1, 2, 0>>, 1), Q(<<-1, 2, 1, 1>>, 2), Q(<<3, 1, -2, 1>>, 2) >>

\* a second, different family of vectors (rank-one directions, data points)
VEC2(d) ==
    CASE d = 1 -> << Q(<<2>>, 1), Q(<<-1>>, 1), Q(<<1>>, 2), Q(<<3>>, 4) >>
      [] d = 2 -> << Q(<<1, 2>>, 1), Q(<<-1, 1>>, 1), Q(<<1, -3>>, 2), Q(<<2, 1>>, 3) >>
      [] d = 3 -> << Q(<<1, 2, -1>>, 1), Q(<<-1, 1, 1>>, 1), Q(<<1, -3, 2>>, 2), Q(<<2, 1, 0>>, 3) >>
      [] d = 4 -> << Q(<<1, 2, -1, 1>>, 1), Q(<<-1, 1, 1, 0>>, 1), Q(<<1, -3, 2, 2>>, 2) >>

\* scalars: log-constants and positive rank-one weights
LNB == << Q(-1, 1), Q(1, 2), Q(0, 1), Q(-3, 4) >>
POS == << Q(1, 1), Q(1, 2), Q(3, 1), Q(2, 3) >>

\* ------------------------------------------------------------------------
\* Badly scaled ("anisotropic") menus: condition numbers 5e2 .. 4e3 (inside the
\* properties' domain cond <= 1e4), diagonal spread of matrix AND inverse > 100,
\* so that data-dependent branches (rescaling, pivoting, jitter, clipping)
\* are reached.  Selected by offsets s >= 10 (SPDm / DPDm below).
\* ------------------------------------------------------------------------
SPDA(d) ==
    CASE d = 1 -> << Q(<<<<400>>>>, 1), Q(<<<<1>>>>, 100), Q(<<<<9>>>>, 1), Q(<<<<3>>>>, 50) >>
      [] d = 2 -> << Q(<< <<400, 10>>, <<10, 1>> >>, 1),
                     Q(<< <<1, -2>>, <<-2, 900>> >>, 1),
                     Q(<< <<2500, 30>>, <<30, 1>> >>, 10),
                     Q(<< <<1, 5>>, <<5, 625>> >>, 5) >>
      [] d = 3 -> << Q(<< <<400, 10, 20>>, <<10, 1, 0>>, <<20, 0, 25>> >>, 1),
                     Q(<< <<1, 1, 0>>, <<1, 900, -5>>, <<0, -5, 4>> >>, 1),
                     Q(<< <<9, 3, 0>>, <<3, 1600, 40>>, <<0, 40, 2>> >>, 4) >>
      [] d = 4 -> << Q(<< <<400, 10, 0, 5>>, <<10, 1, 0, 0>>, <<0, 0, 9, 1>>, <<5, 0, 1, 2>> >>, 1),
                     Q(<< <<1, 0, 1, 0>>, <<0, 900, 0, -20>>, <<1, 0, 4, 1>>, <<0, -20, 1, 2>> >>, 1) >>
DPDA(d) ==
    CASE d = 1 -> << Q(<<<<400>>>>, 1), Q(<<<<1>>>>, 100), Q(<<<<9>>>>, 1), Q(<<<<3>>>>, 50) >>
      [] d = 2 -> << Q(<< <<400, 0>>, <<0, 1>> >>, 1), Q(<< <<1, 0>>, <<0, 900>> >>, 3), Q(<< <<1, 0>>, <<0, 250>> >>, 10) >>
      [] d = 3 -> << Q(<< <<400, 0, 0>>, <<0, 1, 0>>, <<0, 0, 25>> >>, 1), Q(<< <<1, 0, 0>>, <<0, 900, 0>>, <<0, 0, 4>> >>, 2) >>
      [] d = 4 -> << Q(<< <<400, 0, 0, 0>>, <<0, 1, 0, 0>>, <<0, 0, 9, 0>>, <<0, 0, 0, 2>> >>, 1),
                     Q(<< <<1, 0, 0, 0>>, <<0, 900, 0, 0>>, <<0, 0, 4, 0>>, <<0, 0, 0, 2>> >>, 3) >>
\* "Micro" menus: the well-scaled matrices in very small units (all entries times 2e-9; condition numbers unchanged),
\* selected by offsets >= 20: branches that compare against ABSOLUTE thresholds (allclose defaults, fixed jitter)
\* are only reached at such scales.  5e8 * d stays below TLC's 32-bit integers for the menus' denominators d <= 4.
MicroDen == 500000000
Micro(menu) == [i \in DOMAIN menu |-> Q(menu[i].n, menu[i].d * MicroDen)]
SPDm(d, s) == IF s >= 20 THEN Micro(SPD(d)) ELSE IF s >= 10 THEN SPDA(d) ELSE SPD(d)
DPDm(d, s) == IF s >= 20 THEN Micro(DPD(d)) ELSE IF s >= 10 THEN DPDA(d) ELSE DPD(d)

\* R components starting at (cyclic) offset s of a menu
Pick(menu, R, s) == MkSeq(R, LAMBDA i : menu[((s + i - 1) % Len(menu)) + 1])
=============================================================================
