------------------------------- MODULE Menus -------------------------------
(***************************************************************************)
(* Exact input menus.  Every menu entry is given by small integers         *)
(* [n |-> integer array, d |-> positive integer] meaning n/d, so that it   *)
(* can be handed to the implementation exactly (the replay harness builds  *)
(* float64 arrays from the same integers) and mapped into the field        *)
(* exactly (QS/QV/QM).  Matrices are symmetric positive definite with      *)
(* condition number < 1e2, non-diagonal (so that transposition / index     *)
(* mistakes are visible), pairwise non-commuting; vectors and constants    *)
(* are non-zero.                                                           *)
(***************************************************************************)
EXTENDS MeasureOps

Q(n, d) == [n |-> n, d |-> d]

\* exact rational -> field
QS(q) == FQ(q.n, q.d)
QV(q) == MkVec(Len(q.n), LAMBDA i : FQ(q.n[i], q.d))
QM(q) == MkMat(Len(q.n), Len(q.n[1]), LAMBDA i, j : FQ(q.n[i][j], q.d))

\* symmetric positive definite matrices, by dimension
SPD(d) ==
    CASE d = 1 -> << Q(<<<<2>>>>, 1), Q(<<<<1>>>>, 1), Q(<<<<3>>>>, 2), Q(<<<<5>>>>, 4) >>
      [] d = 2 -> << Q(<< <<2, 1>>, <<1, 2>> >>, 1),
                     Q(<< <<3, -1>>, <<-1, 1>> >>, 1),
                     Q(<< <<5, 2>>, <<2, 2>> >>, 2),
                     Q(<< <<2, -1>>, <<-1, 3>> >>, 3) >>
      [] d = 3 -> << Q(<< <<2, 1, 0>>, <<1, 2, 1>>, <<0, 1, 2>> >>, 1),
                     Q(<< <<3, -1, 1>>, <<-1, 2, 0>>, <<1, 0, 1>> >>, 1),
                     Q(<< <<4, 2, -2>>, <<2, 5, 1>>, <<-2, 1, 6>> >>, 2),
                     Q(<< <<2, 0, 1>>, <<0, 1, 0>>, <<1, 0, 3>> >>, 3) >>
      [] d = 4 -> << Q(<< <<2, 1, 0, 0>>, <<1, 2, 1, 0>>, <<0, 1, 2, 1>>, <<0, 0, 1, 2>> >>, 1),
                     Q(<< <<3, -1, 1, 0>>, <<-1, 2, 0, 1>>, <<1, 0, 2, 0>>, <<0, 1, 0, 2>> >>, 2),
                     Q(<< <<4, 1, 0, -1>>, <<1, 3, 1, 0>>, <<0, 1, 2, 0>>, <<-1, 0, 0, 1>> >>, 3) >>

\* diagonal positive matrices
DPD(d) ==
    CASE d = 1 -> << Q(<<<<2>>>>, 1), Q(<<<<1>>>>, 3), Q(<<<<3>>>>, 2), Q(<<<<5>>>>, 4) >>
      [] d = 2 -> << Q(<< <<2, 0>>, <<0, 1>> >>, 1),
                     Q(<< <<1, 0>>, <<0, 3>> >>, 2),
                     Q(<< <<5, 0>>, <<0, 2>> >>, 3),
                     Q(<< <<1, 0>>, <<0, 4>> >>, 1) >>
      [] d = 3 -> << Q(<< <<2, 0, 0>>, <<0, 1, 0>>, <<0, 0, 3>> >>, 1),
                     Q(<< <<1, 0, 0>>, <<0, 3, 0>>, <<0, 0, 5>> >>, 2),
                     Q(<< <<4, 0, 0>>, <<0, 1, 0>>, <<0, 0, 2>> >>, 3),
                     Q(<< <<3, 0, 0>>, <<0, 2, 0>>, <<0, 0, 1>> >>, 1) >>
      [] d = 4 -> << Q(<< <<2, 0, 0, 0>>, <<0, 1, 0, 0>>, <<0, 0, 3, 0>>, <<0, 0, 0, 5>> >>, 1),
                     Q(<< <<1, 0, 0, 0>>, <<0, 3, 0, 0>>, <<0, 0, 5, 0>>, <<0, 0, 0, 2>> >>, 2) >>

\* vectors
VEC(d) ==
    CASE d = 1 -> << Q(<<1>>, 1), Q(<<-1>>, 2), Q(<<3>>, 2), Q(<<-2>>, 1) >>
      [] d = 2 -> << Q(<<1, -1>>, 1), Q(<<-1, 2>>, 2), Q(<<3, 1>>, 2), Q(<<0, -2>>, 1) >>
      [] d = 3 -> << Q(<<1, -1, 2>>, 1), Q(<<-1, 2, 1>>, 2), Q(<<3, 1, -2>>, 2), Q(<<0, -2, 1>>, 1) >>
      [] d = 4 -> << Q(<<1, -1, 2, 0>>, 1), Q(<<-1, 2, 1, 1>>, 2), Q(<<3, 1, -2, 1>>, 2) >>

\* a second, different family of vectors (rank-one directions, data points)
VEC2(d) ==
    CASE d = 1 -> << Q(<<2>>, 1), Q(<<-1>>, 1), Q(<<1>>, 2), Q(<<3>>, 4) >>
      [] d = 2 -> << Q(<<1, 2>>, 1), Q(<<-1, 1>>, 1), Q(<<1, -3>>, 2), Q(<<2, 1>>, 3) >>
      [] d = 3 -> << Q(<<1, 2, -1>>, 1), Q(<<-1, 1, 1>>, 1), Q(<<1, -3, 2>>, 2), Q(<<2, 1, 0>>, 3) >>
      [] d = 4 -> << Q(<<1, 2, -1, 1>>, 1), Q(<<-1, 1, 1, 0>>, 1), Q(<<1, -3, 2, 2>>, 2) >>

\* scalars: log-constants and positive rank-one weights
LNB == << Q(-1, 1), Q(1, 2), Q(0, 1), Q(-3, 4) >>
POS == << Q(1, 1), Q(1, 2), Q(3, 1), Q(2, 3) >>

\* R components starting at (cyclic) offset s of a menu
Pick(menu, R, s) == MkSeq(R, LAMBDA i : menu[((s + i - 1) % Len(menu)) + 1])
=============================================================================
