CONSTANTS
  P = 46337
  Ds = {2, 3}
  Rs = {1, 2}
  Offs = {20}
  Ops = {"condition_on", "condition_on_explicit"}
  PdfKinds = {"PDF:S", "PDF:SLD", "DiagPDF:S"}
INIT Init
NEXT Next
CHECK_DEADLOCK FALSE
PROPERTY Prop_Frame
INVARIANT Inv_CacheCoherent
INVARIANT Inv_PdfNormalised
INVARIANT Inv_ConditionOn
INVARIANT Inv_CondOnX
INVARIANT Inv_CondCoherent
INVARIANT Inv_Export
