------------------------------- MODULE MC_COND -------------------------------
(***************************************************************************)
(* Linear-Gaussian conditionals (C07 - C10, C13, C14 linear part, C15).    *)
(* Scenario:                                                               *)
(*   1 construct the conditional c  (class x constructor mode x b given /  *)
(*     omitted x (Dy, Dx) x R_c)                                           *)
(*   2 construct the density p  (over x; over (y,x) for                    *)
(*     integrate_log_conditional) with R_p components                      *)
(*   3 one operation from Ops                                              *)
(*   4.. follow-up calls on the result, so that the returned object is     *)
(*     also exercised through evaluation, slicing, product, multiply       *)
(* heap: 1 = c, 2 = p, 3 = result                                          *)
(***************************************************************************)
EXTENDS GT

CONSTANTS Dims,      \* set of pairs Dy, Dx encoded as 10*Dy + Dx (cfg files cannot hold tuples)
          RPairs,    \* set of pairs R_c, R_p encoded as 10*R_c + R_p
          CondKinds, \* subset of CondClasses
          Modes,     \* subset of {"S", "L", "SLD"}
          Ops, Offs

n == Len(hist)
c1 == heap[1]
op3 == hist[3]

Init == heap = <<>> /\ hist = <<>>

NeedsJointQ == Ops \subseteq {"int_log_cond"}
POff == IF \A s \in Offs : s >= 20 THEN 21 ELSE IF \A s \in Offs : s >= 10 THEN 11 ELSE 1     \* anisotropic sessions (offsets >= 10) also get a badly scaled p

Op ==
    LET c == heap[1] p == heap[2] IN
    \/ \E k \in Ops \cap {"joint", "marginal", "conditional"} :
          IF TransformOK(c, p) THEN ATransform(k, 1, 2) ELSE ATransformRefused(k, 1, 2)
    \/ "set_y" \in Ops /\ \E N \in (IF CR(c) = 1 THEN {1, 2, 3} ELSE {CR(c)}) : ASetY(1, N, 1)
    \/ "set_y_far" \in Ops /\ \E N \in (IF CR(c) = 1 THEN {1, 3} ELSE {CR(c)}) : ASetY(1, N, 11)      \* outlying observations
    \/ "cond_on_x" \in Ops /\ \E N \in {1, 2} : ACondOnX(1, N, 1, "condition_on_x")
    \/ "cond_on_x_far" \in Ops /\ ACondOnX(1, 2, 11, "condition_on_x")
    \/ \E k \in Ops \cap {"conditional_entropy", "mutual_information"} : TransformOK(c, p) /\ AInfo(k, 1, 2)
    \/ "int_log_cond" \in Ops /\ AIntLogCond(1, 2)
    \/ "int_log_cond_y" \in Ops /\ \E via \in {"callable", "y"} : AIntLogCondY(1, 2, 0, via)
    \/ "update_sigma" \in Ops /\ AUpdateSigma(1, 2)

\* follow-ups
F4 ==
    CASE op3.act = "Transform" /\ op3.id # 0 /\ op3.a.kind \in {"joint", "marginal"} ->
            AEvaluate(3, LatticeSeq(NumD(heap[3])), FALSE, "evaluate_ln")
      [] op3.act = "Transform" /\ op3.id # 0 /\ op3.a.kind = "conditional" -> ACondOnX(3, 2, 0, "call")
      [] op3.act = "SetY" -> AEvaluate(3, LatticeSeq(NumD(heap[3])), FALSE, "evaluate_ln")
      [] op3.act = "CondOnX" -> AEvaluate(3, LatticeSeq(NumD(heap[3])), FALSE, "evaluate_ln")
      [] op3.act = "UpdateSigma" -> ACondOnX(1, 2, 0, "call")
      [] OTHER -> FALSE
F5 ==
    CASE op3.act = "Transform" /\ op3.id # 0 /\ op3.a.kind = "joint" -> AQuery(3, "log_integral")
      [] op3.act = "Transform" /\ op3.id # 0 /\ op3.a.kind = "conditional" ->
            AEvaluate(4, LatticeSeq(NumD(heap[4])), FALSE, "evaluate_ln")
      [] op3.act = "SetY" -> AProduct(3)
      [] op3.act = "UpdateSigma" /\ TransformOK(heap[1], heap[2]) -> ATransform("joint", 1, 2)
      [] OTHER -> FALSE
F6 ==
    CASE op3.act = "SetY" /\ NumR(heap[2]) = 1 -> AMultiply(2, 4, TRUE, "multiply")
      [] OTHER -> FALSE
F7 ==
    CASE op3.act = "SetY" -> AQuery(5, "log_integral")
      [] OTHER -> FALSE

Next ==
    \/ n = 0 /\ \E dd \in Dims, rr \in RPairs, k \in CondKinds, m \in Modes, bm \in {"given", "none"}, s \in Offs :
                   /\ (IsIdCond(k) => bm = "none")
                   /\ ANewCond(k, m, bm, dd \div 10, dd % 10, rr \div 10, s, s)
    \/ n = 1 /\ \E rr \in RPairs, pk \in {"PDF:S", "PDF:SLD", "DiagPDF:S"} :
                   /\ rr \div 10 = CR(c1)
                   /\ ANewPdf(IF pk = "DiagPDF:S" THEN "DiagPDF" ELSE "PDF", IF pk = "PDF:SLD" THEN "SLD" ELSE "S",
                              IF NeedsJointQ THEN CDx(c1) + CDy(c1) ELSE CDx(c1), rr % 10, POff)
    \/ n = 2 /\ Op
    \/ n = 3 /\ F4
    \/ n = 4 /\ F5
    \/ n = 5 /\ F6
    \/ n = 6 /\ F7

Done == /\ n >= 3
        /\ \/ n = 3 /\ ~ENABLED F4
           \/ n = 4 /\ ~ENABLED F5
           \/ n = 5 /\ ~ENABLED F6
           \/ n = 6 /\ ~ENABLED F7
           \/ n = 7
Inv_Export == Export(Done)
=============================================================================
