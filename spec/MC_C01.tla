------------------------------- MODULE MC_C01 -------------------------------
(***************************************************************************)
(* C01: product of a measure with a conjugate factor is pointwise          *)
(* multiplication.  Scenario (one behaviour per configuration):            *)
(*   1 construct the measure u   (kind x R1 x constructor mode)            *)
(*   2 cache-warming query on u  (none / light / full)                     *)
(*   3 construct the factor f    (general, rank-one, linear, constant,     *)
(*                                or itself a measure / density) x R2      *)
(*   4 res = u.multiply(f, full) | u * f | u.hadamard(f, full)             *)
(*   5 evaluate_ln(res) on the unisolvent lattice    6 res(x) element-wise *)
(*   7 res.log_integral()        8 prod = res.product()                    *)
(*   9 evaluate_ln(prod) on the lattice                                    *)
(* heap: 1 = u, 2 = f, 3 = res, 4 = prod                                   *)
(***************************************************************************)
EXTENDS GT

CONSTANTS Ds, R1s, R2s, Offs, ExtraFK     \* ExtraFK: further factor kinds (diagonal measure / density used as the factor)

n == Len(hist)
d0 == NumD(heap[1])

MeasureKinds == {"Measure", "DiagMeasure", "PDF:S", "PDF:SL", "PDF:SLD", "DiagPDF:S"}
FactorKinds == {"Factor", "Rank1", "Linear", "Const", "Measure", "PDF:S"} \cup ExtraFK

NewOfKind(k, d, R, s) ==
    CASE k \in {"Measure", "DiagMeasure"} -> ANewMeasure(k, d, R, s)
      [] k = "PDF:S" -> ANewPdf("PDF", "S", d, R, s)
      [] k = "PDF:SL" -> ANewPdf("PDF", "SL", d, R, s)
      [] k = "PDF:SLD" -> ANewPdf("PDF", "SLD", d, R, s)
      [] k = "DiagPDF:S" -> ANewPdf("DiagPDF", "S", d, R, s)
      [] OTHER -> ANewFactor(k, d, R, s)

Nop == Emit(heap, Step("Nop", [x |-> 0], NoObj, 0, NoObj, 0, NoObj, NoObj))

\* the first R lattice points, for element-wise evaluation
FirstPoints(d, R) == LET L == LatticeSeq(d) IN MkSeq(R, LAMBDA i : L[(i % Len(L)) + 1])

Init == heap = <<>> /\ hist = <<>>

Next ==
    \/ n = 0 /\ \E d \in Ds, k \in MeasureKinds, R \in R1s, s \in Offs : NewOfKind(k, d, R, s)
    \/ n = 1 /\ (\/ Nop
                 \/ (heap[1].cls \in {"Measure", "DiagMeasure"} /\ \E q \in {"log_integral_light", "integral"} : AQuery(1, q)))
    \/ n = 2 /\ \E k \in FactorKinds, R \in R2s, s \in Offs : NewOfKind(k, d0, R, s)
    \/ n = 3 /\ (\/ \E full \in BOOLEAN : AMultiply(1, 2, full, "multiply")
                 \/ AMultiply(1, 2, FALSE, "mul")
                 \/ \E full \in BOOLEAN : AHadamard(1, 2, full))
    \/ n = 4 /\ AEvaluate(3, LatticeSeq(d0), FALSE, "evaluate_ln")
    \/ n = 5 /\ AEvaluate(3, FirstPoints(d0, NumR(heap[3])), TRUE, "call")
    \/ n = 6 /\ AQuery(3, "log_integral")
    \/ n = 7 /\ AProduct(3)
    \/ n = 8 /\ AEvaluate(4, LatticeSeq(d0), FALSE, "evaluate")

Done == n = 9
Inv_Export == Export(Done)

Spec == Init /\ [][Next]_vars
=============================================================================
