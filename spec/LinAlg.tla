------------------------------- MODULE LinAlg -------------------------------
(***************************************************************************)
(* Vectors and matrices over the field of module Field.  A vector is a     *)
(* sequence of field elements, a matrix a sequence of rows.  All           *)
(* constructors are wrapped in TLCEval: TLC's function constructors are    *)
(* lazy and would otherwise be re-evaluated on every access.               *)
(***************************************************************************)
EXTENDS Field

Rows(A) == Len(A)
Cols(A) == IF Len(A) = 0 THEN 0 ELSE Len(A[1])

MkVec(n, F(_)) == TLCEval([i \in 1..n |-> F(i)])
MkMat(n, m, F(_, _)) == TLCEval([i \in 1..n |-> TLCEval([j \in 1..m |-> F(i, j)])])

ZeroVec(n) == MkVec(n, LAMBDA i : 0)
ZeroMat(n, m) == MkMat(n, m, LAMBDA i, j : 0)
Eye(n) == MkMat(n, n, LAMBDA i, j : IF i = j THEN 1 ELSE 0)

VAdd(u, v) == MkVec(Len(u), LAMBDA i : FAdd(u[i], v[i]))
VSub(u, v) == MkVec(Len(u), LAMBDA i : FSub(u[i], v[i]))
VNeg(u) == MkVec(Len(u), LAMBDA i : FNeg(u[i]))
VScale(c, u) == MkVec(Len(u), LAMBDA i : FMul(c, u[i]))
Dot(u, v) == FSumTo([i \in 1..Len(u) |-> FMul(u[i], v[i])], Len(u))
VSum(u) == FSumTo(u, Len(u))

MAdd(A, B) == MkMat(Rows(A), Cols(A), LAMBDA i, j : FAdd(A[i][j], B[i][j]))
MSub(A, B) == MkMat(Rows(A), Cols(A), LAMBDA i, j : FSub(A[i][j], B[i][j]))
MNeg(A) == MkMat(Rows(A), Cols(A), LAMBDA i, j : FNeg(A[i][j]))
MScale(c, A) == MkMat(Rows(A), Cols(A), LAMBDA i, j : FMul(c, A[i][j]))
Transpose(A) == MkMat(Cols(A), Rows(A), LAMBDA i, j : A[j][i])
Col(A, j) == MkVec(Rows(A), LAMBDA i : A[i][j])
MatVec(A, v) == MkVec(Rows(A), LAMBDA i : Dot(A[i], v))
VecMat(v, A) == MkVec(Cols(A), LAMBDA j : Dot(v, Col(A, j)))
MatMul(A, B) == LET BT == Transpose(B) IN MkMat(Rows(A), Rows(BT), LAMBDA i, j : Dot(A[i], BT[j]))
\* A * B' without forming the transpose
MatMulT(A, B) == MkMat(Rows(A), Rows(B), LAMBDA i, j : Dot(A[i], B[j]))
Outer(u, v) == MkMat(Len(u), Len(v), LAMBDA i, j : FMul(u[i], v[j]))
Quad(x, A, y) == Dot(x, MatVec(A, y))
Trace(A) == FSumTo([i \in 1..Rows(A) |-> A[i][i]], Rows(A))
Sym(A) == MkMat(Rows(A), Cols(A), LAMBDA i, j : FHalfOf(FAdd(A[i][j], A[j][i])))
Diag(d) == MkMat(Len(d), Len(d), LAMBDA i, j : IF i = j THEN d[i] ELSE 0)
DiagOf(A) == MkVec(Rows(A), LAMBDA i : A[i][i])

\* sub-matrix / sub-vector selected by index sequences (1-based)
TakeV(v, idx) == MkVec(Len(idx), LAMBDA i : v[idx[i]])
TakeM(A, ri, ci) == MkMat(Len(ri), Len(ci), LAMBDA i, j : A[ri[i]][ci[j]])

\* block matrix [[A, B], [C, D]] and stacked vector
Block(A, B, C, D) ==
    LET n1 == Rows(A) n2 == Rows(C) m1 == Cols(A) m2 == Cols(B) IN
    MkMat(n1 + n2, m1 + m2, LAMBDA i, j :
        IF i <= n1 THEN (IF j <= m1 THEN A[i][j] ELSE B[i][j - m1])
        ELSE (IF j <= m1 THEN C[i - n1][j] ELSE D[i - n1][j - m1]))
VCat(u, v) == MkVec(Len(u) + Len(v), LAMBDA i : IF i <= Len(u) THEN u[i] ELSE v[i - Len(u)])
HCat(A, B) == MkMat(Rows(A), Cols(A) + Cols(B), LAMBDA i, j : IF j <= Cols(A) THEN A[i][j] ELSE B[i][j - Cols(A)])

VEq(u, v) == Len(u) = Len(v) /\ \A i \in 1..Len(u) : FEq(u[i], v[i])
MEq(A, B) == Rows(A) = Rows(B) /\ Cols(A) = Cols(B) /\ \A i \in 1..Rows(A) : \A j \in 1..Cols(A) : FEq(A[i][j], B[i][j])
IsEye(A) == MEq(A, Eye(Rows(A)))

(***************************************************************************)
(* Inverse and determinant by recursive elimination of the first variable  *)
(* (block LDU / Schur complement), without pivoting.  Exact over Q         *)
(* whenever all leading principal minors are non-zero, which holds for     *)
(* every symmetric positive definite matrix; a pivot that vanishes only    *)
(* modulo P poisons the result.                                            *)
(*    A = [a b; c D],  S = D - c a^-1 b,  det A = a det S,                 *)
(*    A^-1 = [ 1/a + (b S^-1 c)/a^2 , -(b S^-1)/a ; -(S^-1 c)/a , S^-1 ]   *)
(***************************************************************************)
RECURSIVE InvDet(_)
InvDet(A) ==
    LET n == Rows(A) IN
    IF n = 1 THEN [inv |-> <<<<FInv(A[1][1])>>>>, det |-> A[1][1]]
    ELSE
      LET a  == A[1][1]
          ai == FInv(a)
          b  == MkVec(n - 1, LAMBDA j : A[1][j + 1])
          c  == MkVec(n - 1, LAMBDA i : A[i + 1][1])
          S  == MkMat(n - 1, n - 1, LAMBDA i, j : FSub(A[i + 1][j + 1], FMul3(c[i], ai, b[j])))
          R  == InvDet(S)
          Si == R.inv
          bS == VScale(ai, VecMat(b, Si))       \* (b S^-1)/a
          Sc == VScale(ai, MatVec(Si, c))       \* (S^-1 c)/a
          tl == FAdd(ai, FMul(ai, Dot(b, Sc)))  \* 1/a + b S^-1 c / a^2
      IN [inv |-> MkMat(n, n, LAMBDA i, j :
                     IF i = 1 THEN (IF j = 1 THEN tl ELSE FNeg(bS[j - 1]))
                     ELSE (IF j = 1 THEN FNeg(Sc[i - 1]) ELSE Si[i - 1][j - 1])),
          det |-> FMul(a, R.det)]

Inv(A) == InvDet(A).inv
Det(A) == InvDet(A).det

\* determinant by Laplace expansion along the first row (any square matrix, n <= 4 in practice)
RECURSIVE DetL(_)
DetL(A) ==
    LET n == Rows(A) IN
    IF n = 1 THEN A[1][1]
    ELSE FSumTo([j \in 1..n |->
            LET minor == MkMat(n - 1, n - 1, LAMBDA r, c : A[r + 1][IF c < j THEN c ELSE c + 1])
                t == FMul(A[1][j], DetL(minor))
            IN IF j % 2 = 1 THEN t ELSE FNeg(t)], n)

\* Solve A x = v through the inverse
Solve(A, v) == MatVec(Inv(A), v)
=============================================================================
