-------------------------------- MODULE Trunc --------------------------------
(***************************************************************************)
(* L2 number domain (values with atoms) and truncated one-dimensional      *)
(* Gaussian measures (experimental/truncated_measure.py), C20.             *)
(*                                                                         *)
(* A Val is a sequence of terms [c, ln, f, t] denoting                     *)
(*      sum  c * exp(ln) * f(t),   f in {one, Phi, phi}                    *)
(* with c, t field elements (t a rational standardised limit), ln a        *)
(* log-number, Phi / phi the standard normal cdf / pdf.  The Python side   *)
(* evaluates the atoms with math.erfc / math.exp (harness/atoms.py).       *)
(*                                                                         *)
(* Truncated moments use the antiderivative                                *)
(*      int z^j phi(z) dz = A_j Phi(t) + B_j(t) phi(t)                     *)
(* A_0 = 1, A_1 = 0, A_j = (j-1) A_{j-2};                                  *)
(* B_0 = 0, B_1 = -1, B_j(t) = -t^(j-1) + (j-1) B_{j-2}(t).                *)
(* That it IS an antiderivative is checked by TLC as the polynomial        *)
(* identity  A_j + B_j'(t) - t B_j(t) = t^j  (Inv_TruncCertificate), using *)
(* Phi' = phi and phi' = -t phi - independently of the library's           *)
(* recursion.                                                              *)
(***************************************************************************)
EXTENDS Moments

\* hm = TRUE: the term is additionally multiplied by the real value of the log-number m
Term(c, ln, f, t) == [c |-> c, ln |-> ln, f |-> f, t |-> t, hm |-> FALSE, m |-> LNZero]
TermM(c, ln, f, t, m) == [c |-> c, ln |-> ln, f |-> f, t |-> t, hm |-> TRUE, m |-> m]

\* polynomials over the field: sequences of coefficients, lowest degree first
PolyEval(p, t) == FSumTo([k \in 1..Len(p) |-> FMul(p[k], FPow(t, k - 1))], Len(p))
PolyDeriv(p) == IF Len(p) <= 1 THEN <<0>> ELSE [k \in 1..(Len(p) - 1) |-> FMul(FI(k), p[k + 1])]
PolyShift(p) == <<0>> \o p                               \* t * p(t)
PolyCoef(p, k) == IF k <= Len(p) THEN p[k] ELSE 0
PolyAdd(p, q) == LET m == IF Len(p) >= Len(q) THEN Len(p) ELSE Len(q) IN [k \in 1..m |-> FAdd(PolyCoef(p, k), PolyCoef(q, k))]
PolyScale(c, p) == [k \in 1..Len(p) |-> FMul(c, p[k])]
PolyMono(j) == [k \in 1..(j + 1) |-> IF k = j + 1 THEN 1 ELSE 0]    \* t^j
PolyEq(p, q) == LET m == IF Len(p) >= Len(q) THEN Len(p) ELSE Len(q) IN \A k \in 1..m : FEq(PolyCoef(p, k), PolyCoef(q, k))

RECURSIVE TA(_)
TA(j) == IF j = 0 THEN 1 ELSE IF j = 1 THEN 0 ELSE FMul(FI(j - 1), TA(j - 2))
RECURSIVE TB(_)
TB(j) == IF j = 0 THEN <<0>> ELSE IF j = 1 THEN <<FI(-1)>>
         ELSE PolyAdd(PolyScale(FI(-1), PolyMono(j - 1)), PolyScale(FI(j - 1), TB(j - 2)))

\* A_j + B_j' - t B_j = t^j
TruncCertificate(j) ==
    PolyEq(PolyAdd(PolyAdd(<<TA(j)>>, PolyDeriv(TB(j))), PolyScale(FI(-1), PolyShift(TB(j)))), PolyMono(j))

RECURSIVE Binom(_, _)
Binom(k, j) == IF j = 0 \/ j = k THEN 1 ELSE Binom(k - 1, j - 1) + Binom(k - 1, j)

\* int_alpha^beta z^j phi(z) dz as terms with common factor c and log-weight ln; infinite limits drop their atoms
StdMomentTerms(j, c, ln, aInf, alpha, bInf, beta) ==
    (IF bInf THEN <<Term(FMul(c, TA(j)), ln, "one", 0)>>
     ELSE <<Term(FMul(c, TA(j)), ln, "Phi", beta), Term(FMul(c, PolyEval(TB(j), beta)), ln, "phi", beta)>>)
    \o
    (IF aInf THEN <<>>
     ELSE <<Term(FNeg(FMul(c, TA(j))), ln, "Phi", alpha), Term(FNeg(FMul(c, PolyEval(TB(j), alpha))), ln, "phi", alpha)>>)

RECURSIVE ConcatTo(_, _)
ConcatTo(s, k) == IF k = 0 THEN <<>> ELSE ConcatTo(s, k - 1) \o s[k]

\* int_a^b x^k u(x) dx for u = exp(ln) N(mu, sigma^2):  x = mu + sigma z
TruncMomentVal(k, ln, mu, sigma, aInf, alpha, bInf, beta) ==
    ConcatTo([jj \in 1..(k + 1) |->
                 LET j == jj - 1 IN
                 StdMomentTerms(j, FMul3(FI(Binom(k, j)), FPow(mu, k - j), FPow(sigma, j)), ln, aInf, alpha, bInf, beta)],
             k + 1)

\* a Val is zero iff, after collecting like atoms, every coefficient vanishes
ValKeys(v) == {<<v[k].f, v[k].t, v[k].ln, v[k].hm, v[k].m>> : k \in 1..Len(v)}
ValIsZero(v) ==
    \A key \in ValKeys(v) :
        FEq(FSumTo([k \in 1..Len(v) |-> IF <<v[k].f, v[k].t, v[k].ln, v[k].hm, v[k].m>> = key THEN v[k].c ELSE 0], Len(v)), 0)
ValNeg(v) == [k \in 1..Len(v) |-> [v[k] EXCEPT !.c = FNeg(v[k].c)]]
ValEq(v, w) == ValIsZero(v \o ValNeg(w))

\* untruncated 1-D raw moments E[x^k] of N(mu, s2) by the recursion m_k = mu m_{k-1} + (k-1) s2 m_{k-2}
RECURSIVE RawMoment(_, _, _)
RawMoment(k, mu, s2) == IF k = 0 THEN 1 ELSE IF k = 1 THEN mu
                        ELSE FAdd(FMul(mu, RawMoment(k - 1, mu, s2)), FMul3(FI(k - 1), s2, RawMoment(k - 2, mu, s2)))
=============================================================================
