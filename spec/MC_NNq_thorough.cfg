CONSTANTS
  P = 46337
  Dims = {11, 12, 21, 22}
  Dus = {1, 2, 3}
  Rxs = {1, 2}
  Offs = {0, 1, 2}
  Ops = {"int_log_cond"}
INIT Init
NEXT Next
CHECK_DEADLOCK FALSE
PROPERTY Prop_Frame
INVARIANT Inv_CacheCoherent
INVARIANT Inv_PdfNormalised
INVARIANT Inv_CondCoherent
INVARIANT Inv_Transform
INVARIANT Inv_IntLogCond
INVARIANT Inv_Export
