CONSTANTS
  P = 46337
  Family = "M"
  Depth = 3
  MaxHeap = 5
  MaxR = 4
  Ds = {2}
  InitKinds = {"Measure", "DiagMeasure", "PDF:S"}
  FactorKinds = {"Measure", "PDF:S"}
  CondKinds = {}
  RInit = {1, 2}
  SampleMod = 1
  SampleRes = 0
  Rich = FALSE
INIT Init
NEXT Next
CHECK_DEADLOCK FALSE
PROPERTY Prop_Frame
INVARIANT Inv_CacheCoherent
INVARIANT Inv_PdfNormalised
INVARIANT Inv_ReportedMass
INVARIANT Inv_Pointwise
INVARIANT Inv_Normalize
INVARIANT Inv_Slice
INVARIANT Inv_Export
