------------------------------- MODULE Moments -------------------------------
(***************************************************************************)
(* Exact Gaussian moments of products of up to four affine forms, by       *)
(* Isserlis' (Wick's) theorem written out explicitly - the independent     *)
(* oracle for the polynomial integration table (C03), for the expected     *)
(* log-factor / log-conditional integrals (C14) and for the moment         *)
(* matching of approximate conditionals (C16).  Nothing here mirrors the   *)
(* einsum formulas of measure.py.                                          *)
(*                                                                         *)
(* A form is a record [a |-> vector, c |-> scalar] denoting a'x + c.       *)
(* With x ~ N(m, S), e_k = a_k'm + c_k and C_kl = a_k' S a_l:              *)
(*   E[f1]          = e1                                                   *)
(*   E[f1 f2]       = e1 e2 + C12                                          *)
(*   E[f1 f2 f3]    = e1 e2 e3 + e1 C23 + e2 C13 + e3 C12                  *)
(*   E[f1 f2 f3 f4] = e1e2e3e4 + (6 terms e e C) + C12C34 + C13C24 + C14C23*)
(***************************************************************************)
EXTENDS PdfOps

Form(a, c) == [a |-> a, c |-> c]
RowForm(A, av, k) == Form(A[k], av[k])
CoordForm(d, i) == Form(UnitV(d, i), 0)

FE(f, m) == FAdd(Dot(f.a, m), f.c)
FC(f, g, S) == Quad(f.a, S, g.a)

Mom1(f1, m, S) == FE(f1, m)
Mom2(f1, f2, m, S) == FAdd(FMul(FE(f1, m), FE(f2, m)), FC(f1, f2, S))
Mom3(f1, f2, f3, m, S) ==
    LET e1 == FE(f1, m) e2 == FE(f2, m) e3 == FE(f3, m) IN
    FAdd(FMul3(e1, e2, e3),
         FAdd3(FMul(e1, FC(f2, f3, S)), FMul(e2, FC(f1, f3, S)), FMul(e3, FC(f1, f2, S))))
Mom4(f1, f2, f3, f4, m, S) ==
    LET e1 == FE(f1, m) e2 == FE(f2, m) e3 == FE(f3, m) e4 == FE(f4, m)
        c12 == FC(f1, f2, S) c13 == FC(f1, f3, S) c14 == FC(f1, f4, S)
        c23 == FC(f2, f3, S) c24 == FC(f2, f4, S) c34 == FC(f3, f4, S)
    IN FAdd3(FMul(FMul(e1, e2), FMul(e3, e4)),
             FAdd3(FAdd(FMul3(e1, e2, c34), FMul3(e1, e3, c24)),
                   FAdd(FMul3(e1, e4, c23), FMul3(e2, e3, c14)),
                   FAdd(FMul3(e2, e4, c13), FMul3(e3, e4, c12))),
             FAdd3(FMul(c12, c34), FMul(c13, c24), FMul(c14, c23)))

SumOver(n, F(_)) == FSumTo([k \in 1..n |-> F(k)], n)

(***************************************************************************)
(* The documented integration table.  A, B, C, Dm: matrices (rows = affine *)
(* forms), a, b, c, dv: offset vectors, for ONE component with mean m and  *)
(* covariance S.  Returns the normalised expectation (a scalar, vector or  *)
(* matrix); the integral is mass * expectation.                            *)
(***************************************************************************)
ExpectExpr(key, m, S, A, a, B, b, C, c, Dm, dv) ==
    LET d == Len(m)
        fA(k) == RowForm(A, a, k) fB(k) == RowForm(B, b, k)
        fC(k) == RowForm(C, c, k) fD(k) == RowForm(Dm, dv, k)
        X(i) == CoordForm(d, i)
    IN
    CASE key = "x" -> MkVec(d, LAMBDA i : Mom1(X(i), m, S))
      [] key = "(Ax+a)" -> MkVec(Rows(A), LAMBDA k : Mom1(fA(k), m, S))
      [] key = "xx'" -> MkMat(d, d, LAMBDA i, j : Mom2(X(i), X(j), m, S))
      [] key = "(Ax+a)'(Bx+b)" -> SumOver(Rows(A), LAMBDA k : Mom2(fA(k), fB(k), m, S))
      [] key = "(Ax+a)(Bx+b)'" -> MkMat(Rows(A), Rows(B), LAMBDA k, l : Mom2(fA(k), fB(l), m, S))
      [] key = "(Ax+a)(Bx+b)'(Cx+c)" ->
            MkVec(Rows(A), LAMBDA k : SumOver(Rows(B), LAMBDA l : Mom3(fA(k), fB(l), fC(l), m, S)))
      [] key = "(Ax+a)'(Bx+b)(Cx+c)'" ->
            MkVec(Rows(C), LAMBDA l : SumOver(Rows(A), LAMBDA k : Mom3(fA(k), fB(k), fC(l), m, S)))
      [] key = "x(A'x + a)x'" ->      \* A has one row, a one entry
            MkMat(d, d, LAMBDA i, j : Mom3(X(i), fA(1), X(j), m, S))
      [] key = "xb'xx'" ->            \* b given as the single row of B, offset 0
            MkMat(d, d, LAMBDA i, j : Mom3(X(i), Form(B[1], 0), X(j), m, S))
      [] key = "(Ax+a)'(Bx+b)(Cx+c)'(Dx+d)" ->
            SumOver(Rows(A), LAMBDA k : SumOver(Rows(C), LAMBDA l : Mom4(fA(k), fB(k), fC(l), fD(l), m, S)))
      [] key = "(Ax+a)(Bx+b)'(Cx+c)(Dx+d)'" ->
            MkMat(Rows(A), Rows(Dm), LAMBDA k, mm :
                SumOver(Rows(B), LAMBDA l : Mom4(fA(k), fB(l), fC(l), fD(mm), m, S)))

\* E[ ln f(x) ] for a conjugate factor component (Lam, nu) without its constant: -1/2 E[x' Lam x] + nu' E[x]
ExpectLogFactorQ(Lam, nu, m, S) ==
    LET d == Len(m) IN
    FSub(SumOver(d, LAMBDA i : FMul(nu[i], Mom1(CoordForm(d, i), m, S))),
         FHalfOf(SumOver(d, LAMBDA i : SumOver(d, LAMBDA j : FMul(Lam[i][j], Mom2(CoordForm(d, i), CoordForm(d, j), m, S))))))
=============================================================================
