------------------------------- MODULE MC_C20 -------------------------------
(***************************************************************************)
(* C20: truncated one-dimensional Gaussian measures.                       *)
(* Scenario: 1 base measure (un-normalised measure or density, R comps)    *)
(* 2 truncate (measure / normalised pdf; limits finite, one-sided, far     *)
(* tail, scalar or per-component arrays)  3 one of: integrate key/k,       *)
(* __call__ (inside / outside / boundary points), get_density + call,      *)
(* mean / variance.                                                        *)
(***************************************************************************)
EXTENDS GT

CONSTANTS Rs, Offs, LimIdx, Ks

n == Len(hist)
Init == heap = <<>> /\ hist = <<>>

Points == << Q(<<0>>, 1), Q(<<1>>, 2), Q(<<-1>>, 1), Q(<<2>>, 1), Q(<<5>>, 1), Q(<<-7>>, 2), Q(<<1>>, 3) >>

Next ==
    \/ n = 0 /\ \E kind \in {"Measure", "PDF"}, R \in Rs, s \in Offs : ANewMeasure1D(kind, R, s)
    \/ n = 1 /\ \E cls \in {"Trunc", "TruncPDF"}, li \in LimIdx, lm \in {"scalar", "array"} :
                   ANewTrunc(cls, 1, li, lm)
    \/ n = 2 /\ (\/ \E k \in Ks : ATruncIntegrate(2, IF k = 0 THEN "1" ELSE IF k = 1 THEN "x" ELSE IF k = 2 THEN "x**2" ELSE "x**k", k)
                 \/ \E k \in {0, 1, 2} : ATruncIntegrate(2, "x**k", k)
                 \/ ATruncCall(2, Points, FALSE)
                 \/ ATruncCall(2, Pick(Points, NumR(heap[1]), 1), TRUE)
                 \/ (heap[2].cls = "Trunc" /\ ATruncGetDensity(2))
                 \/ (heap[2].cls = "TruncPDF" /\ \E w \in {"mean", "variance"} : ATruncStat(2, w)))
    \/ n = 3 /\ hist[3].act = "TruncGetDensity" /\ (\/ ATruncCall(3, Points, FALSE)
                                                     \/ ATruncIntegrate(3, "1", 0)
                                                     \/ ATruncStat(3, "mean") \/ ATruncStat(3, "variance"))

Done == (n = 3 /\ hist[3].act # "TruncGetDensity") \/ n = 4
Inv_Export == Export(Done)
=============================================================================
