------------------------------- MODULE MC_C20 -------------------------------
(***************************************************************************)
(* C20: truncated one-dimensional Gaussian measures.                       *)
(* Scenario: 1 base measure (un-normalised measure or density, R comps)    *)
(* 2 truncate (measure / normalised pdf; limits finite, one-sided, far     *)
(* tail, scalar or per-component arrays)  3 one of: integrate key/k,       *)
(* __call__ (inside / outside / boundary points), get_density + call,      *)
(* mean / variance.                                                        *)
(***************************************************************************)
EXTENDS GT

CONSTANTS Rs, Offs, LimIdx, Ks,
          Warm      \* what happened to the base measure before it is truncated: subset of {"none", "integral", "trunc"}

n == Len(hist)
Init == heap = <<>> /\ hist = <<>>

Points == << Q(<<0>>, 1), Q(<<1>>, 2), Q(<<-1>>, 1), Q(<<2>>, 1), Q(<<5>>, 1), Q(<<-7>>, 2), Q(<<1>>, 3) >>

Nop == Emit(heap, Step("Nop", [x |-> 0], NoObj, 0, NoObj, 0, NoObj, NoObj))
\* the base measure may have been used before (its lazily filled caches are then populated): by an integral, or by an
\* earlier truncated object built on it (e.g. the left one of two adjacent intervals)
WarmStep(w) ==
    CASE w = "none" -> Nop
      [] w = "integral" -> AQuery(1, "log_integral")
      [] w = "trunc" -> ANewTrunc("Trunc", 1, 1, "scalar")
T == Len(heap)          \* the truncated object under test is the most recent object after step 3

Next ==
    \/ n = 0 /\ \E kind \in {"Measure", "PDF"}, R \in Rs, s \in Offs : ANewMeasure1D(kind, R, s)
    \/ n = 1 /\ \E w \in Warm : WarmStep(w)
    \/ n = 2 /\ \E cls \in {"Trunc", "TruncPDF"}, li \in LimIdx, lm \in {"scalar", "array"} :
                   ANewTrunc(cls, 1, li, lm)
    \/ n = 3 /\ (\/ \E k \in Ks : ATruncIntegrate(T, IF k = 0 THEN "1" ELSE IF k = 1 THEN "x" ELSE IF k = 2 THEN "x**2" ELSE "x**k", k)
                 \/ \E k \in {0, 1, 2} : ATruncIntegrate(T, "x**k", k)
                 \/ ATruncCall(T, Points, FALSE)
                 \/ ATruncCall(T, Pick(Points, NumR(heap[1]), 1), TRUE)
                 \/ (heap[T].cls = "Trunc" /\ ATruncGetDensity(T))
                 \/ (heap[T].cls = "TruncPDF" /\ \E w \in {"mean", "variance"} : ATruncStat(T, w)))
    \/ n = 4 /\ hist[4].act = "TruncGetDensity" /\ (\/ ATruncCall(T, Points, FALSE)
                                                     \/ ATruncIntegrate(T, "1", 0)
                                                     \/ ATruncStat(T, "mean") \/ ATruncStat(T, "variance"))

Done == (n = 4 /\ hist[4].act # "TruncGetDensity") \/ n = 5
Inv_Export == Export(Done)
=============================================================================
