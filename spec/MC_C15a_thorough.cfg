CONSTANTS
  P = 46337
  Ds = {1, 2, 3}
  R1s = {1, 2, 3}
  R2s = {1, 2}
  Offs = {1}
  ExtraFK = {"DiagMeasure", "DiagPDF:S"}
INIT Init
NEXT Next
CHECK_DEADLOCK FALSE
PROPERTY Prop_Frame
INVARIANT Inv_CacheCoherent
INVARIANT Inv_PdfNormalised
INVARIANT Inv_ReportedMass
INVARIANT Inv_Pointwise
INVARIANT Inv_Generalize
INVARIANT Inv_Export
