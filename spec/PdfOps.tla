------------------------------- MODULE PdfOps -------------------------------
(***************************************************************************)
(* Densities (pdf.py) and linear-Gaussian conditionals (conditional.py):   *)
(* object records, constructors and operations, in the documented          *)
(* (intended) semantics.  Where the shipped code uses a particular formula *)
(* with case analysis (information-form joint precision, the two           *)
(* log-determinant branches Dx > Dy / Dx <= Dy) the formula is transcribed *)
(* as a separate operator and proved equal to the semantic value by an     *)
(* invariant of GT.                                                        *)
(***************************************************************************)
EXTENDS Menus

\* ------------------------------------------------------------------------
\* Densities
\* ------------------------------------------------------------------------
\* get_marginal(dims): dims = sequence of 1-based coordinates
Marginal(p, dims) ==
    NewPdfGen(p.cls, "S", MkSeq(NumR(p), LAMBDA i : TakeM(p.Sig[i], dims, dims)),
              MkSeq(NumR(p), LAMBDA i : TakeV(p.mu[i], dims)), <<>>, <<>>)

\* get_density_of_linear_sum(W, b): W, b sequences over the components
LinearSum(p, W, b) ==
    NewPdf(MkSeq(NumR(p), LAMBDA i : MatMulT(MatMul(W[i], p.Sig[i]), W[i])),
           MkSeq(NumR(p), LAMBDA i : VAdd(MatVec(W[i], p.mu[i]), b[i])))

\* -E[ln p] from the moments E[x], E[xx'] of the density itself (definition of entropy)
ExpLnUnder(p, i, q, j) ==   \* E_{p_i}[ ln q_j(x) ] as a log-number
    LET S == p.Sig[i] m == p.mu[i] L == q.Lam[j] IN
    LNAddQ(q.lnb[j], FSub(Dot(q.nu[j], m), FHalfOf(FAdd(Trace(MatMul(L, S)), Quad(m, L, m)))))
EntropySem(p, i) == LNNeg(ExpLnUnder(p, i, p, i))
\* closed form the library uses: 1/2 (D (1 + ln 2 pi) + ln det Sigma)
EntropyClosed(p, i) == LN(FQ(NumD(p), 2), NumD(p), p.dSig[i])

\* KL(p_i || q_j) = E_p[ln p] - E_p[ln q]
KLSem(p, i, q, j) == LNSub(ExpLnUnder(p, i, p, i), ExpLnUnder(p, i, q, j))
KLClosed(p, i, q, j) ==
    LET dm == VSub(q.mu[j], p.mu[i]) IN
    LN(FHalfOf(FSub(FAdd(Trace(MatMul(q.Lam[j], p.Sig[i])), Quad(dm, q.Lam[j], dm)), FI(NumD(p)))),
       0, FDiv(q.dSig[j], p.dSig[i]))

\* update(idx, q): replace the components idx (distinct, 1-based) of p by those of q
UpdateIdx(s, idx, t) == MkSeq(Len(s), LAMBDA r : IF \E k \in 1..Len(idx) : idx[k] = r
                                                   THEN t[CHOOSE k \in 1..Len(idx) : idx[k] = r] ELSE s[r])
Update(p, idx, q) ==
    [p EXCEPT !.Lam = UpdateIdx(p.Lam, idx, q.Lam), !.Sig = UpdateIdx(p.Sig, idx, q.Sig),
              !.mu = UpdateIdx(p.mu, idx, q.mu), !.dSig = UpdateIdx(p.dSig, idx, q.dSig),
              !.lnZ = UpdateIdx(p.lnZ, idx, q.lnZ), !.nu = UpdateIdx(p.nu, idx, q.nu),
              !.lnb = UpdateIdx(p.lnb, idx, q.lnb)]

\* ------------------------------------------------------------------------
\* Linear-Gaussian conditionals  p(y|x) = N(y; M x + b, Sigma)
\* cls in {"Cond", "CondDiag", "CondId", "CondIdDiag"}; the identity classes denote M = I, b = 0.
\* ------------------------------------------------------------------------
MkCond(cls, M, b, Sig, Lam, dSig) == [cls |-> cls, M |-> M, b |-> b, Sig |-> Sig, Lam |-> Lam, dSig |-> dSig]
CondClasses == {"Cond", "CondDiag", "CondId", "CondIdDiag"}
IsCond(o) == o.cls \in CondClasses
CR(c) == Len(c.Sig)
CDy(c) == Len(c.b[1])
CDx(c) == Len(c.M[1][1])
IsDiagCond(cls) == cls \in {"CondDiag", "CondIdDiag"}
IsIdCond(cls) == cls \in {"CondId", "CondIdDiag"}

InvDiagM(S) == Diag(MkVec(Rows(S), LAMBDA j : FInv(S[j][j])))
DetDiagM(S) == FProdTo(DiagOf(S), Rows(S))

\* constructor modes: "S" (Sigma given), "L" (Lambda given), "SLD" (Sigma, Lambda, ln_det_Sigma given)
NewCond(cls, mode, M, b, Mat, LamIn, dSigIn) ==
    LET R == Len(Mat)
        inv(X) == IF IsDiagCond(cls) THEN InvDiagM(X) ELSE Inv(X)
        det(X) == IF IsDiagCond(cls) THEN DetDiagM(X) ELSE Det(X)
    IN CASE mode = "S" -> MkCond(cls, M, b, Mat, MkSeq(R, LAMBDA i : inv(Mat[i])), MkSeq(R, LAMBDA i : det(Mat[i])))
         [] mode = "L" -> MkCond(cls, M, b, MkSeq(R, LAMBDA i : inv(Mat[i])), Mat, MkSeq(R, LAMBDA i : FInv(det(Mat[i]))))
         [] mode = "SLD" -> MkCond(cls, M, b, Mat, LamIn, dSigIn)

CondSlice(c, idx) ==
    MkCond(IF c.cls = "CondIdDiag" THEN "CondId" ELSE IF c.cls = "CondDiag" THEN "Cond" ELSE c.cls,
           TakeS(c.M, idx), TakeS(c.b, idx), TakeS(c.Sig, idx), TakeS(c.Lam, idx), TakeS(c.dSig, idx))

CondCoherent(c) ==
    \A i \in 1..CR(c) : IsEye(MatMul(c.Sig[i], c.Lam[i])) /\ FEq(c.dSig[i], Det(c.Sig[i]))

\* ln p_i(y | x) from the definition
CondLn(c, i, x, y) == NormalLn(y, VAdd(MatVec(c.M[i], x), c.b[i]), c.Sig[i])

\* condition_on_x(X): density over y with R*N components, layout r*N + n
CondOnX(c, X) ==
    LET R == CR(c) N == Len(X)
        I(k) == ((k - 1) \div N) + 1
        J(k) == ((k - 1) % N) + 1
    IN NewPdfFull(MkSeq(R * N, LAMBDA k : c.Sig[I(k)]),
                  MkSeq(R * N, LAMBDA k : VAdd(MatVec(c.M[I(k)], X[J(k)]), c.b[I(k)])),
                  MkSeq(R * N, LAMBDA k : c.Lam[I(k)]),
                  MkSeq(R * N, LAMBDA k : c.dSig[I(k)]))

\* set_y(Y): the likelihood factors x -> p(y_n | x); R = 1 broadcast over N observations, or R = N paired
SetY(c, Y) ==
    LET N == Len(Y) R == CR(c)
        I(n) == IF R = 1 THEN 1 ELSE n
    IN NewFactor(
         MkSeq(N, LAMBDA n : MatMul(Transpose(c.M[I(n)]), MatMul(c.Lam[I(n)], c.M[I(n)]))),
         MkSeq(N, LAMBDA n : VecMat(MatVec(c.Lam[I(n)], VSub(Y[n], c.b[I(n)])), c.M[I(n)])),
         MkSeq(N, LAMBDA n : LET r == VSub(Y[n], c.b[I(n)]) IN
                     LN(FNeg(FHalfOf(Quad(r, c.Lam[I(n)], r))), 0 - CDy(c), FInv(c.dSig[I(n)]))))

\* batch layout of the affine transformations: k = i * R_x + j with one of R_c, R_x equal to 1
TI(k, Rx) == ((k - 1) \div Rx) + 1
TJ(k, Rx) == ((k - 1) % Rx) + 1
TransformOK(c, p) == CR(c) = 1 \/ NumR(p) = 1

JointSigma(c, i, p, j) ==
    LET MS == MatMul(c.M[i], p.Sig[j]) IN
    Block(p.Sig[j], Transpose(MS), MS, MAdd(c.Sig[i], MatMulT(MS, c.M[i])))
JointMu(c, i, p, j) == VCat(p.mu[j], VAdd(MatVec(c.M[i], p.mu[j]), c.b[i]))

\* affine_joint_transformation: density over (x, y), x first
Joint(c, p) ==
    LET Rx == NumR(p) Rn == CR(c) * Rx
        Sg == MkSeq(Rn, LAMBDA k : JointSigma(c, TI(k, Rx), p, TJ(k, Rx)))
        ID == MkSeq(Rn, LAMBDA k : InvDet(Sg[k]))
    IN NewPdfFull(Sg, MkSeq(Rn, LAMBDA k : JointMu(c, TI(k, Rx), p, TJ(k, Rx))),
                  MkSeq(Rn, LAMBDA k : ID[k].inv), MkSeq(Rn, LAMBDA k : ID[k].det))

\* the information-form precision and the two log-determinant branches the code uses
JointLambdaInfo(c, i, p, j) ==
    LET LM == MatMul(c.Lam[i], c.M[i]) IN      \* Lambda_y M   [Dy x Dx]
    Block(MAdd(p.Lam[j], MatMul(Transpose(c.M[i]), LM)), MNeg(Transpose(LM)), MNeg(LM), c.Lam[i])
JointDetSchurSigma(c, i, p, j) ==      \* branch Dx > Dy:  det Sxy = det Sx * det(Sy - C Lx C')
    LET C == MatMul(c.M[i], p.Sig[j])
        Sy == MAdd(c.Sig[i], MatMulT(C, c.M[i]))
    IN FMul(p.dSig[j], Det(MSub(Sy, MatMulT(MatMul(C, p.Lam[j]), C))))
JointDetSchurLambda(c, i, p, j) ==     \* branch Dx <= Dy: det Lxy = det Ly * det(Lx' - L' Sy|x L)
    LET LM == MatMul(c.Lam[i], c.M[i])
        Lx == MAdd(p.Lam[j], MatMul(Transpose(c.M[i]), LM))
        LSL == MatMul(Transpose(LM), MatMul(c.Sig[i], LM))
    IN FInv(FMul(FInv(c.dSig[i]), Det(MSub(Lx, LSL))))

\* affine_marginal_transformation: N(M mu + b, Sigma_y + M Sigma_x M')
MarginalT(c, p) ==
    LET Rx == NumR(p) Rn == CR(c) * Rx IN
    NewPdf(MkSeq(Rn, LAMBDA k : LET i == TI(k, Rx) j == TJ(k, Rx) IN
                      MAdd(c.Sig[i], MatMulT(MatMul(c.M[i], p.Sig[j]), c.M[i]))),
           MkSeq(Rn, LAMBDA k : LET i == TI(k, Rx) j == TJ(k, Rx) IN VAdd(MatVec(c.M[i], p.mu[j]), c.b[i])))

\* affine_conditional_transformation: p(x|y) in information form
CondT(c, p) ==
    LET Rx == NumR(p) Rn == CR(c) * Rx
        Lx == MkSeq(Rn, LAMBDA k : LET i == TI(k, Rx) j == TJ(k, Rx) IN
                   MAdd(p.Lam[j], MatMul(Transpose(c.M[i]), MatMul(c.Lam[i], c.M[i]))))
        ID == MkSeq(Rn, LAMBDA k : InvDet(Lx[k]))
        Mx == MkSeq(Rn, LAMBDA k : LET i == TI(k, Rx) IN MatMul(ID[k].inv, MatMul(Transpose(c.M[i]), c.Lam[i])))
        bx == MkSeq(Rn, LAMBDA k : LET i == TI(k, Rx) j == TJ(k, Rx) IN
                   VSub(MatVec(ID[k].inv, p.nu[j]), MatVec(Mx[k], c.b[i])))
    IN MkCond("Cond", Mx, bx, MkSeq(Rn, LAMBDA k : ID[k].inv), Lx, MkSeq(Rn, LAMBDA k : FInv(ID[k].det)))

\* condition_on(dim_y) / condition_on_explicit(dim_y, dim_x) of a density: 1-based coordinate sequences
ConditionOnExplicit(p, dy, dx) ==
    LET R == NumR(p)
        Lx == MkSeq(R, LAMBDA i : TakeM(p.Lam[i], dx, dx))
        ID == MkSeq(R, LAMBDA i : InvDet(Lx[i]))
        Mx == MkSeq(R, LAMBDA i : MNeg(MatMul(ID[i].inv, TakeM(p.Lam[i], dx, dy))))
        bx == MkSeq(R, LAMBDA i : VSub(TakeV(p.mu[i], dx), MatVec(Mx[i], TakeV(p.mu[i], dy))))
    IN MkCond("Cond", Mx, bx, MkSeq(R, LAMBDA i : ID[i].inv), Lx, MkSeq(R, LAMBDA i : FInv(ID[i].det)))

\* ascending complement of a coordinate sequence
RECURSIVE AscSeq(_, _)
AscSeq(S, n) == IF n = 0 THEN <<>> ELSE AscSeq(S, n - 1) \o (IF n \in S THEN <<n>> ELSE <<>>)
Complement(d, dy) == AscSeq((1..d) \ {dy[k] : k \in 1..Len(dy)}, d)
ConditionOn(p, dy) == ConditionOnExplicit(p, dy, Complement(NumD(p), dy))

\* E_q[ ln p(y|x) ] for a Gaussian q over z = (y, x)   (integrate_log_conditional)
IntLogCond(c, i, q, j) ==
    LET dy == CDy(c) dx == CDx(c)
        A == HCat(Eye(dy), MNeg(c.M[i]))                 \* r = A z - b
        m == VSub(MatVec(A, q.mu[j]), c.b[i])
        S == MatMulT(MatMul(A, q.Sig[j]), A)
    IN LN(FNeg(FHalfOf(FAdd(Trace(MatMul(c.Lam[i], S)), Quad(m, c.Lam[i], m)))), 0 - dy, FInv(c.dSig[i]))

\* E_{p(x)}[ ln p(y|x) ] at a given y   (integrate_log_conditional_y)
IntLogCondY(c, i, p, j, y) ==
    LET m == VSub(y, VAdd(MatVec(c.M[i], p.mu[j]), c.b[i]))
        S == MatMulT(MatMul(c.M[i], p.Sig[j]), c.M[i])
    IN LN(FNeg(FHalfOf(FAdd(Trace(MatMul(c.Lam[i], S)), Quad(m, c.Lam[i], m)))), 0 - CDy(c), FInv(c.dSig[i]))

\* conditional entropy  H(Y|X) = -E[ln p(y|x)] = 1/2 ln det(2 pi e Sigma)   and mutual information
CondEntropy(c, i) == LN(FQ(CDy(c), 2), CDy(c), c.dSig[i])
MutualInfo(c, i, p, j) ==
    LET Sy == MAdd(c.Sig[i], MatMulT(MatMul(c.M[i], p.Sig[j]), c.M[i]))
        Sxy == JointSigma(c, i, p, j)
    IN LN(0, 0, FDiv(FMul(p.dSig[j], Det(Sy)), Det(Sxy)))

\* update_Sigma
UpdateSigma(c, Snew) ==
    LET R == CR(c)
    IN [c EXCEPT !.Sig = Snew, !.Lam = MkSeq(R, LAMBDA i : Inv(Snew[i])), !.dSig = MkSeq(R, LAMBDA i : Det(Snew[i]))]
=============================================================================
