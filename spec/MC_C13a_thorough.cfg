CONSTANTS
  P = 46337
  Ds = {1, 2, 3}
  Rs = {1, 2, 3, 4}
  Offs = {0, 1}
  Ops = {"kl"}
  PdfKinds = {"PDF:S", "PDF:SLD", "DiagPDF:S"}
INIT Init
NEXT Next
CHECK_DEADLOCK FALSE
PROPERTY Prop_Frame
INVARIANT Inv_CacheCoherent
INVARIANT Inv_PdfNormalised
INVARIANT Inv_EntropyKL
INVARIANT Inv_Export
