CONSTANTS
  P = 46337
  Dims = {12, 22}
  RPairs = {13, 31}
  CondKinds = {"Cond", "CondId"}
  Modes = {"S"}
  Ops = {"conditional_entropy", "mutual_information"}
  Offs = {0}
INIT Init
NEXT Next
CHECK_DEADLOCK FALSE
PROPERTY Prop_Frame
INVARIANT Inv_CacheCoherent
INVARIANT Inv_PdfNormalised
INVARIANT Inv_ReportedMass
INVARIANT Inv_CondCoherent
INVARIANT Inv_Pointwise
INVARIANT Inv_Info
INVARIANT Inv_Export
