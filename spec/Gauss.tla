------------------------------- MODULE Gauss -------------------------------
(***************************************************************************)
(* SEMANTIC LAYER.  What an object of the library *denotes*, defined from  *)
(* first principles on the exact number domains, independently of the      *)
(* formulas the implementation uses.                                       *)
(*                                                                         *)
(* An object of the factor / measure / density family is a batch of R      *)
(* components   u_i(x) = exp( -1/2 x' Lam_i x + nu_i' x + lnb_i ).         *)
(* Textbook facts taken as axioms (they cannot be derived inside TLA+):    *)
(*   (G) int exp(-1/2 x'Lx + n'x) dx = (2pi)^(D/2) det(L)^(-1/2)           *)
(*                                      exp(1/2 n' L^-1 n)     (L > 0)     *)
(*   (I) Isserlis' theorem for moments of a Gaussian  (module Moments)     *)
(* Everything else (marginals, conditionals, joints, Bayes) is             *)
(* characterised through identities between such functions, checked on a   *)
(* unisolvent point set (Lattice2) and therefore decided for ALL points.   *)
(***************************************************************************)
EXTENDS LogNum

\* ------------------------------------------------------------------------
\* Object records of the factor / measure / density family
\* ------------------------------------------------------------------------
\* cls in {"Factor","Rank1","Linear","Const","Measure","DiagMeasure","PDF","DiagPDF"}
\* Lam, nu, lnb : sequences over the R components (matrix, vector, LN)
\* v, g         : rank-one parametrisation (Rank1 only)
\* cS, Sig, dSig: covariance cache: flag, matrices, det(Sigma) as stored  (ln_det_Sigma = ln dSig = -ln_det_Lambda)
\* cZ, lnZ      : log-partition cache;   cM, mu : mean cache
MkObj(cls, Lam, nu, lnb) ==
    [cls |-> cls, Lam |-> Lam, nu |-> nu, lnb |-> lnb, v |-> <<>>, g |-> <<>>,
     cS |-> FALSE, Sig |-> <<>>, dSig |-> <<>>,
     cZ |-> FALSE, lnZ |-> <<>>, cM |-> FALSE, mu |-> <<>>]

NumR(o) == Len(o.Lam)
NumD(o) == Len(o.nu[1])

FactorClasses  == {"Factor", "Rank1", "Linear", "Const"}
MeasureClasses == {"Measure", "DiagMeasure", "PDF", "DiagPDF"}
PdfClasses     == {"PDF", "DiagPDF"}
DiagClasses    == {"DiagMeasure", "DiagPDF"}
IsMeasure(o) == o.cls \in MeasureClasses
IsPdf(o) == o.cls \in PdfClasses

MkSeq(n, F(_)) == TLCEval([i \in 1..n |-> F(i)])

\* ------------------------------------------------------------------------
\* The function an object is
\* ------------------------------------------------------------------------
\* ln u_i(x) as a log-number
EvalLnC(Lam, nu, lnb, x) ==
    LNAddQ(lnb, FSub(Dot(nu, x), FHalfOf(Quad(x, Lam, x))))
EvalLn(o, i, x) == EvalLnC(o.Lam[i], o.nu[i], o.lnb[i], x)

\* ln N(y; m, S) from the definition of the normal density
NormalLn(y, m, S) ==
    LET ID == InvDet(S)
        d  == VSub(y, m)
    IN LN(FNeg(FHalfOf(Quad(d, ID.inv, d))), 0 - Len(y), FInv(ID.det))

\* ln int u_i(x) dx by axiom (G); uses only the defining parameters
LnMassC(Lam, nu, lnb) ==
    LET ID == InvDet(Lam)
    IN LNAdd(lnb, LN(FHalfOf(Quad(nu, ID.inv, nu)), Len(nu), FInv(ID.det)))
LnMass(o, i) == LnMassC(o.Lam[i], o.nu[i], o.lnb[i])

\* true covariance, determinant of covariance, mean, log-partition of component i
TruthC(Lam, nu) ==
    LET ID == InvDet(Lam)
        Sg == ID.inv
    IN [Sig |-> Sg, dSig |-> FInv(ID.det), mu |-> MatVec(Sg, nu),
        lnZ |-> LN(FHalfOf(Quad(nu, Sg, nu)), Len(nu), FInv(ID.det))]
Truth(o, i) == TruthC(o.Lam[i], o.nu[i])

\* ------------------------------------------------------------------------
\* Lattice2(n) = { x in N^n : sum x <= 2 }: unisolvent for polynomials of
\* degree <= 2 in n variables.  Two functions exp(quadratic) that agree on it
\* agree everywhere.  Points are sequences of small naturals (= field elements).
\* ------------------------------------------------------------------------
UnitV(n, a) == MkVec(n, LAMBDA i : IF i = a THEN 1 ELSE 0)
Lattice2(n) ==
    {ZeroVec(n)} \cup {UnitV(n, a) : a \in 1..n}
                 \cup {VAdd(UnitV(n, a), UnitV(n, b)) : a \in 1..n, b \in 1..n}

\* as a sequence (deterministic order) for export / Evaluate actions
RECURSIVE SetToSeq(_)
SetToSeq(S) == IF S = {} THEN <<>> ELSE LET x == CHOOSE y \in S : TRUE IN <<x>> \o SetToSeq(S \ {x})
LatticeSeq(n) ==
    LET pairs == {<<a, b>> : a \in 1..n, b \in 1..n} IN
    <<ZeroVec(n)>> \o [a \in 1..n |-> UnitV(n, a)]
      \o SetToSeq({VAdd(UnitV(n, p[1]), UnitV(n, p[2])) : p \in {q \in pairs : q[1] <= q[2]}})

\* ------------------------------------------------------------------------
\* Semantic equality of two objects of the family: same function per component
\* ------------------------------------------------------------------------
SameFunctionC(L1, n1, b1, L2, n2, b2) ==
    MEq(Sym(L1), Sym(L2)) /\ VEq(n1, n2) /\ LNEq(b1, b2)
SemEq(o1, o2) ==
    /\ NumR(o1) = NumR(o2)
    /\ \A i \in 1..NumR(o1) :
         SameFunctionC(o1.Lam[i], o1.nu[i], o1.lnb[i], o2.Lam[i], o2.nu[i], o2.lnb[i])

\* ------------------------------------------------------------------------
\* Cache coherence (C04): every populated cache equals the value derived
\* from the defining parameters
\* ------------------------------------------------------------------------
CacheCoherent(o) ==
    IsMeasure(o) =>
      \A i \in 1..NumR(o) :
        LET T == Truth(o, i) IN
        /\ o.cS => (MEq(o.Sig[i], T.Sig) /\ FEq(o.dSig[i], T.dSig)
                     /\ IsEye(MatMul(o.Sig[i], o.Lam[i])))
        /\ o.cZ => LNEq(o.lnZ[i], T.lnZ)
        /\ o.cM => VEq(o.mu[i], T.mu)

\* a density: mass one and equal to the normal density of its mean / covariance
IsNormalised(o) ==
    \A i \in 1..NumR(o) : LNEq(LnMass(o, i), LNZero)
=============================================================================
