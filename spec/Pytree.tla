------------------------------- MODULE Pytree -------------------------------
(***************************************************************************)
(* C18, mechanism (i): the pytree / dictionary protocol of the library's   *)
(* dataclasses as a small state machine over a CLASS TABLE THAT THE        *)
(* HARNESS EXTRACTS FROM THE CURRENT CODE (harness/classtable.py writes    *)
(* module PytreeTable with the definition Table):                          *)
(*   Table[c].fields : names of all dataclass fields of class c            *)
(*   Table[c].init   : names of the fields accepted by the constructor     *)
(*   Table[c].states : cache state -> [dyn, stat : sets of attribute names *)
(*        that flatten returns as children / as static aux data,           *)
(*        bad : children that are not arrays / None / nested pytrees]      *)
(*   Table[c].todict : keys of to_dict(), or {"<none>"} if the class has   *)
(*        no to_dict                                                       *)
(* Protocol (utils/dataclass.py): unflatten calls the constructor with    *)
(* children and static data as keyword arguments; the constructor raises on any name that is not a field,      *)
(* silently drops fields with init=False and recomputes them.              *)
(* Required(c): the alternative sets of constructor arguments from which   *)
(* an equivalent object can be rebuilt (class semantics).                  *)
(* Invariant: no reachable protocol state is "rejected", for every class,  *)
(* with and without populated caches.                                      *)
(***************************************************************************)
EXTENDS Naturals, FiniteSets, Sequences, TLC, PytreeTable

VARIABLES cls, cst, loc, carried
pvars == <<cls, cst, loc, carried>>

Classes == DOMAIN Table

Required(c) ==
    CASE c = "ConjugateFactor" -> {{"Lambda"}}
      [] c = "OneRankFactor" -> {{"v"}}
      [] c = "LinearFactor" -> {{"nu"}}
      [] c = "ConstantFactor" -> {{"ln_beta", "num_dim"}}
      [] c \in {"GaussianMeasure", "GaussianDiagMeasure"} -> {{"Lambda", "nu", "ln_beta"}}
      [] c \in {"GaussianPDF", "GaussianDiagPDF"} -> {{"Sigma", "mu"}}
      [] c \in {"ConditionalGaussianPDF", "ConditionalGaussianDiagPDF"} -> {{"M", "b", "Sigma"}, {"M", "b", "Lambda"}}
      [] c \in {"ConditionalIdentityGaussianPDF", "ConditionalIdentityDiagGaussianPDF"} -> {{"Sigma"}, {"Lambda"}}
      [] OTHER -> {{}}

Rebuildable(c, kwargs) ==
    /\ kwargs \subseteq Table[c].fields                          \* the constructor raises on unknown names
    /\ \E alt \in Required(c) : alt \subseteq (kwargs \cap Table[c].init)

PInit == /\ cls \in Classes
         /\ cst \in DOMAIN Table[cls].states
         /\ loc = "eager"
         /\ carried = {}

Flatten == /\ loc = "eager"
           /\ loc' = "flat"
           /\ carried' = Table[cls].states[cst].dyn \cup Table[cls].states[cst].stat
           /\ UNCHANGED <<cls, cst>>

\* tree_unflatten / returning from a transformed function
Unflatten == /\ loc = "flat"
             /\ loc' = IF Rebuildable(cls, carried) THEN "rebuilt" ELSE "rejected"
             /\ UNCHANGED <<cls, cst, carried>>

\* passing the object as an argument of jit / vmap / scan: every child becomes a tracer
TraceArg == /\ loc = "flat"
            /\ loc' = IF Table[cls].states[cst].bad = {} THEN "traced" ELSE "rejected"
            /\ UNCHANGED <<cls, cst, carried>>

ToDict == /\ loc = "eager" /\ Table[cls].todict # {"<none>"}
          /\ loc' = "dict"
          /\ carried' = Table[cls].todict
          /\ UNCHANGED <<cls, cst>>

FromDict == /\ loc = "dict"
            /\ loc' = IF Rebuildable(cls, carried) THEN "rebuilt" ELSE "rejected"
            /\ UNCHANGED <<cls, cst, carried>>

\* a rebuilt object is a fresh eager object again (caches dropped): the protocol can be iterated
Again == /\ loc \in {"rebuilt", "traced"}
         /\ loc' = IF loc = "traced" THEN "flat" ELSE "eager"
         /\ cst' = IF loc = "traced" THEN cst ELSE CHOOSE s \in DOMAIN Table[cls].states : s = "fresh"
         /\ UNCHANGED <<cls, carried>>

PNext == Flatten \/ Unflatten \/ TraceArg \/ ToDict \/ FromDict \/ Again

Inv_NeverRejected == loc # "rejected"
\* every class the property names is present in the extracted table
Inv_TableComplete ==
    {"ConjugateFactor", "OneRankFactor", "LinearFactor", "ConstantFactor", "GaussianMeasure", "GaussianDiagMeasure",
     "GaussianPDF", "GaussianDiagPDF", "ConditionalGaussianPDF", "ConditionalGaussianDiagPDF",
     "ConditionalIdentityGaussianPDF", "ConditionalIdentityDiagGaussianPDF"} \subseteq Classes
=============================================================================
