-------------------------------- MODULE Trace --------------------------------
(***************************************************************************)
(* B2: validation of executions RECORDED FROM THE REAL CODE against the    *)
(* specification.  harness/driver.py runs random sessions of public calls  *)
(* on the library with exact rational inputs and records one event per     *)
(* call (operation, operand ids, exact arguments; observed values are kept *)
(* on the Python side).  This module re-executes every event with the SAME *)
(* actions as the session machine GT (no re-implementation):               *)
(*   - an event whose action is not enabled in the specification (guard    *)
(*     false: wrong dimensions, undocumented batch combination, ...) does  *)
(*     not stop validation: the trace gets a sticky "Rejected" step naming *)
(*     the event, and its remaining events are skipped (total verdict);    *)
(*   - every invariant of GT listed in the cfg is evaluated in every state *)
(*     of every recorded execution;                                        *)
(*   - at the end of each trace the history with the exact expected        *)
(*     observables of every step is printed; the harness compares them     *)
(*     with what the code actually returned.                               *)
(* The state graph is a single chain: one state per consumed event.        *)
(***************************************************************************)
EXTENDS GT, IOUtils

VARIABLES tid, l
tvars == <<heap, hist, tid, l>>

Traces == JsonDeserialize(IOEnv.TRACE_FILE)

Ev == Traces[tid][l]

Dispatch(e) ==
    CASE e.op = "NewMeasure" -> ANewMeasureExplicit(e.cls, e.Lambda, e.nu, e.ln_beta)
      [] e.op = "NewPdf" -> ANewPdfExplicit(e.Sigma, e.mu)
      [] e.op = "NewFactor" -> ANewFactorExplicit(e.cls, e.Lambda, e.v, e.g, e.nu, e.ln_beta, e.num_dim)
      [] e.op = "NewCond" -> ANewCondExplicit(e.M, e.b, e.Mat)
      [] e.op = "Query" -> AQuery(e.i, e.q)
      [] e.op = "Normalize" -> ANormalize(e.i)
      [] e.op = "GetDensity" -> AGetDensity(e.i)
      [] e.op = "Multiply" -> AMultiply(e.i, e.j, e.full, "multiply")
      [] e.op = "Hadamard" -> AHadamard(e.i, e.j, e.full)
      [] e.op = "Product" -> AProduct(e.i)
      [] e.op = "Slice" -> IF IsCond(heap[e.i]) THEN ACondSlice(e.i, e.idx1, e.idx) ELSE ASlice(e.i, e.idx1, e.idx)
      [] e.op = "Marginal" -> AMarginal(e.i, e.dims1)
      [] e.op = "ConditionOn" -> AConditionOn(e.i, e.dy1)
      [] e.op = "CondOnX" -> ACondOnXQ(e.i, e.x)
      [] e.op = "SetY" -> ASetYQ(e.i, e.y)
      [] e.op = "Transform" -> IF TransformOK(heap[e.i], heap[e.j]) THEN ATransform(e.kind, e.i, e.j) ELSE ATransformRefused(e.kind, e.i, e.j)
      [] e.op = "Update" -> AUpdate(e.i, e.idx1, e.j)
      [] e.op = "UpdateSigma" -> AUpdateSigmaExplicit(e.i, e.Sigma)
      [] e.op = "EvaluateQ" -> AEvaluateQ(e.i, e.x, FALSE, "evaluate_ln")
      [] e.op = "Entropy" -> AEntropy(e.i)
      [] e.op = "KL" -> AKL(e.i, e.j)
      [] e.op = "Integrate" -> AIntegrate(e.i, e.key, e.A, e.B, e.C, e.D)
      [] e.op = "IntegrateLogFactor" -> AIntegrateLogFactor(e.i, e.j)
      [] e.op = "Info" -> AInfo(e.kind, e.i, e.j)
      [] OTHER -> FALSE

Reject(e) == Emit(heap, Step("Rejected", [l |-> l, op |-> e.op], NoObj, 0, NoObj, 0, NoObj, NoObj))

TInit == heap = <<>> /\ hist = <<>> /\ tid = 1 /\ l = 1

Consume ==
    /\ tid <= Len(Traces) /\ l <= Len(Traces[tid])
    /\ IF ENABLED Dispatch(Ev) THEN Dispatch(Ev) /\ l' = l + 1 ELSE Reject(Ev) /\ l' = Len(Traces[tid]) + 1
    /\ tid' = tid

Finish ==
    /\ tid <= Len(Traces) /\ l > Len(Traces[tid])
    /\ PrintT(ToJson([tid |-> tid, hist |-> hist]))
    /\ tid' = tid + 1 /\ l' = 1 /\ heap' = <<>> /\ hist' = <<>>

TNext == Consume \/ Finish
=============================================================================
