CONSTANTS
  P = 46337
  Classes = {"HetExp", "HetCosh", "HetStep", "HetRelu"}
  Dims = {11, 12, 21, 22}
  Dks = {1, 2}
  Das = {2, 3}
  Rs = {1}
  JointQ = FALSE
  Bound = TRUE
  Offs = {0, 1, 2}
INIT Init
NEXT Next
CHECK_DEADLOCK FALSE
PROPERTY Prop_Frame
INVARIANT Inv_CacheCoherent
INVARIANT Inv_PdfNormalised
INVARIANT Inv_HetSh
INVARIANT Inv_Export
