CONSTANTS
  P = 46337
  Ds = {1, 4}
  Rs = {1, 3}
  Kinds = {"Measure", "PDF:INT", "DiagMeasure"}
  Keys = {"x", "(Ax+a)", "xx'", "(Ax+a)'(Bx+b)", "(Ax+a)(Bx+b)'", "(Ax+a)(Bx+b)'(Cx+c)", "(Ax+a)'(Bx+b)(Cx+c)'", "x(A'x + a)x'", "xb'xx'", "(Ax+a)'(Bx+b)(Cx+c)'(Dx+d)", "(Ax+a)(Bx+b)'(Cx+c)(Dx+d)'"}
  MaxDeviate = 1
  KLMs = {245, 514}
  FactorKindsC14 = {}
  Warm = {"none"}
INIT Init
NEXT Next
CHECK_DEADLOCK FALSE
PROPERTY Prop_Frame
INVARIANT Inv_CacheCoherent
INVARIANT Inv_ReportedMass
INVARIANT Inv_IntegrateTable
INVARIANT Inv_Export
