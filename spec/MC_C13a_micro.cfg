CONSTANTS
  P = 46337
  Ds = {2}
  Rs = {1, 2}
  Offs = {20}
  Ops = {"kl"}
  PdfKinds = {"PDF:S", "DiagPDF:S"}
INIT Init
NEXT Next
CHECK_DEADLOCK FALSE
PROPERTY Prop_Frame
INVARIANT Inv_CacheCoherent
INVARIANT Inv_PdfNormalised
INVARIANT Inv_EntropyKL
INVARIANT Inv_Export
