CONSTANTS
  P = 46337
  Dims = {34, 43, 44}
  RPairs = {14, 51}
  CondKinds = {"Cond", "CondId"}
  Modes = {"S"}
  Ops = {"conditional"}
  Offs = {0}
INIT Init
NEXT Next
CHECK_DEADLOCK FALSE
PROPERTY Prop_Frame
INVARIANT Inv_CacheCoherent
INVARIANT Inv_PdfNormalised
INVARIANT Inv_ReportedMass
INVARIANT Inv_CondCoherent
INVARIANT Inv_Pointwise
INVARIANT Inv_Transform
INVARIANT Inv_CondOnX
INVARIANT Inv_Export
