CONSTANTS
  P = 46337
  Dims = {22, 11, 33}
  RPairs = {11, 31}
  CondKinds = {"Cond", "CondDiag", "CondId", "CondIdDiag"}
  Modes = {"S"}
  Ops = {"set_y_far", "cond_on_x_far"}
  Offs = {0}
INIT Init
NEXT Next
CHECK_DEADLOCK FALSE
PROPERTY Prop_Frame
INVARIANT Inv_CacheCoherent
INVARIANT Inv_PdfNormalised
INVARIANT Inv_ReportedMass
INVARIANT Inv_CondCoherent
INVARIANT Inv_Pointwise
INVARIANT Inv_SetY
INVARIANT Inv_Export
