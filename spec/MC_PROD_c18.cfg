CONSTANTS
  P = 46337
  Ds = {2}
  Rs = {1, 3}
  Offs = {0, 1}
INIT Init
NEXT Next
CHECK_DEADLOCK FALSE
PROPERTY Prop_Frame
INVARIANT Inv_CacheCoherent
INVARIANT Inv_PdfNormalised
INVARIANT Inv_ReportedMass
INVARIANT Inv_Pointwise
INVARIANT Inv_Export
