------------------------------- MODULE Approx -------------------------------
(***************************************************************************)
(* Approximate conditionals (approximate_conditional.py), C16 / C17:       *)
(* linear + RBF features, linear + squared-exponential features,           *)
(* heteroscedastic noise with exp / cosh-1 / step / rectified-linear link. *)
(*                                                                         *)
(* Exact moments of y under p(y|x) p(x) are values with atoms (module      *)
(* Trunc): kernel expectations are Gaussian integrals of products, i.e.    *)
(* single exp-atoms whose exponent is a log-number computed by the         *)
(* SEMANTIC layer (LnMassC); link expectations are exp-atoms or Phi / phi  *)
(* atoms at rational standardised arguments.                               *)
(* A Val is a sequence of terms; a term may carry a log-number multiplier  *)
(* (hm = TRUE: the term is multiplied by the real value of `m`).           *)
(***************************************************************************)
EXTENDS Trunc

T1(c, ln) == Term(c, ln, "one", 0)
VConst(c) == <<T1(c, LNZero)>>
VPlus(v, w) == v \o w
VScaleF(c, v) == [k \in 1..Len(v) |-> [v[k] EXCEPT !.c = FMul(c, v[k].c)]]
VNegV(v) == VScaleF(FI(-1), v)
\* product of two values whose atoms are all of kind "one"
VTimes(v, w) == [k \in 1..(Len(v) * Len(w)) |->
                    LET a == v[((k - 1) \div Len(w)) + 1] b == w[((k - 1) % Len(w)) + 1] IN
                    T1(FMul(a.c, b.c), LNAdd(a.ln, b.ln))]
RECURSIVE ValSumTo(_, _)
ValSumTo(s, k) == IF k = 0 THEN <<>> ELSE ValSumTo(s, k - 1) \o s[k]
\* sum_a coef[a] * vals[a]  (coef: field vector, vals: sequence of Vals)
VLin(coef, vals) == ValSumTo([a \in 1..Len(coef) |-> VScaleF(coef[a], vals[a])], Len(coef))

\* ------------------------------------------------------------------------
\* Feature models.  c = [cls |-> "LRBF" | "LSEM", M, b, Sig, Lam, dSig (one component each), kL, kn, kb : the kernels
\* as conjugate factors (sequences over the Dk kernels: precision, information vector, log-constant)]
\* ------------------------------------------------------------------------
FDk(c) == Len(c.kL)
FDx(c) == Len(c.kn[1])
FDy(c) == Len(c.b[1])

\* kernels of the RBF model: k_i(x) = exp(-1/2 sum_d (x_d - s_id)^2 / l_id^2)
RBFKernelL(ctr, ls) == Diag(MkVec(Len(ctr), LAMBDA d : FInv(FMul(ls[d], ls[d]))))
RBFKerneln(ctr, ls) == MkVec(Len(ctr), LAMBDA d : FDiv(ctr[d], FMul(ls[d], ls[d])))
RBFKernelb(ctr, ls) == LNQ(FNeg(FHalfOf(FSumTo([d \in 1..Len(ctr) |-> FMul(FDiv(ctr[d], ls[d]), FDiv(ctr[d], ls[d]))], Len(ctr)))))
\* kernels of the squared-exponential model: k_i(x) = exp(-1/2 (w_i'x - w0_i)^2), as the object itself defines them
SEMKernelL(w) == Outer(w, w)
SEMKerneln(w, w0) == VScale(w0, w)
SEMKernelb(w0) == LNQ(FNeg(FHalfOf(FMul(w0, w0))))

\* log-mass and mean of  p_r(x) * prod_{i in idx} k_i(x)   (p a density, component r)
ProdStats(c, p, r, idx) ==
    LET L == IF Len(idx) = 0 THEN p.Lam[r]
             ELSE IF Len(idx) = 1 THEN MAdd(p.Lam[r], c.kL[idx[1]])
             ELSE MAdd(MAdd(p.Lam[r], c.kL[idx[1]]), c.kL[idx[2]])
        nu == IF Len(idx) = 0 THEN p.nu[r]
              ELSE IF Len(idx) = 1 THEN VAdd(p.nu[r], c.kn[idx[1]])
              ELSE VAdd(VAdd(p.nu[r], c.kn[idx[1]]), c.kn[idx[2]])
        lb == IF Len(idx) = 0 THEN p.lnb[r]
              ELSE IF Len(idx) = 1 THEN LNAdd(p.lnb[r], c.kb[idx[1]])
              ELSE LNAdd3(p.lnb[r], c.kb[idx[1]], c.kb[idx[2]])
    IN [ln |-> LnMassC(L, nu, lb), mu |-> TruthC(L, nu).mu]

\* E[phi_a], a in 1..Dx+Dk, and E[phi_a phi_b] as Vals
EPhi(c, p, r, a) ==
    LET dx == FDx(c) T == Truth(p, r) IN
    IF a <= dx THEN VConst(T.mu[a]) ELSE <<T1(1, ProdStats(c, p, r, <<a - dx>>).ln)>>
EPhiPhi(c, p, r, a, b) ==
    LET dx == FDx(c) T == Truth(p, r) IN
    IF a <= dx /\ b <= dx THEN VConst(FAdd(T.Sig[a][b], FMul(T.mu[a], T.mu[b])))
    ELSE IF a <= dx THEN LET st == ProdStats(c, p, r, <<b - dx>>) IN <<T1(st.mu[a], st.ln)>>
    ELSE IF b <= dx THEN LET st == ProdStats(c, p, r, <<a - dx>>) IN <<T1(st.mu[b], st.ln)>>
    ELSE <<T1(1, ProdStats(c, p, r, <<a - dx, b - dx>>).ln)>>
CovPhi(c, p, r, a, b) == VPlus(EPhiPhi(c, p, r, a, b), VNegV(VTimes(EPhi(c, p, r, a), EPhi(c, p, r, b))))

\* moments of y: mean, covariance, cross-covariance with x
FeatMeanY(c, p, r) ==
    LET nphi == FDx(c) + FDk(c) IN
    MkSeq(FDy(c), LAMBDA i : VPlus(VConst(c.b[1][i]), VLin(c.M[1][i], [a \in 1..nphi |-> EPhi(c, p, r, a)])))
FeatCovY(c, p, r) ==
    LET nphi == FDx(c) + FDk(c) IN
    MkSeq(FDy(c), LAMBDA i : MkSeq(FDy(c), LAMBDA j :
        VPlus(VConst(c.Sig[1][i][j]),
              ValSumTo([a \in 1..nphi |-> ValSumTo([b \in 1..nphi |->
                          VScaleF(FMul(c.M[1][i][a], c.M[1][j][b]), CovPhi(c, p, r, a, b))], nphi)], nphi))))
FeatCovYX(c, p, r) ==
    LET nphi == FDx(c) + FDk(c) IN
    MkSeq(FDy(c), LAMBDA i : MkSeq(FDx(c), LAMBDA d :
        ValSumTo([a \in 1..nphi |-> VScaleF(c.M[1][i][a], CovPhi(c, p, r, a, d))], nphi)))

\* conditional mean at a point x: M phi(x) + b with phi(x) = (x, k_1(x), ..)
FeatCondMean(c, x) ==
    LET dx == FDx(c) nphi == dx + FDk(c)
        phi(a) == IF a <= dx THEN VConst(x[a]) ELSE <<T1(1, EvalLnC(c.kL[a - dx], c.kn[a - dx], c.kb[a - dx], x))>>
    IN MkSeq(FDy(c), LAMBDA i : VPlus(VConst(c.b[1][i]), VLin(c.M[1][i], [a \in 1..nphi |-> phi(a)])))

\* ------------------------------------------------------------------------
\* C14 for the feature models: E_q[ ln p(y|x) ] for an arbitrary Gaussian q over z = (y, x), and
\* E_{p(x)}[ ln p(y|x) ] at a given y.  With r = y - Mx x - Mk k(x) - b:
\*   E[r'Lr] = E[(Az+a)'L(Az+a)] - 2 sum_i E[(Az+a)'L m_i k_i] + sum_ij m_i'L m_j E[k_i k_j]
\* where the kernel expectations are masses / means of the product measures q x k_i (x k_j).
\* ------------------------------------------------------------------------
\* the feature model's kernels embedded in the joint space z = (y, x): zero blocks for y
EmbedKernels(c) ==
    LET dy == FDy(c) dx == FDx(c) IN
    [c EXCEPT !.kL = MkSeq(FDk(c), LAMBDA i : Block(ZeroMat(dy, dy), ZeroMat(dy, dx), ZeroMat(dx, dy), c.kL[i])),
              !.kn = MkSeq(FDk(c), LAMBDA i : VCat(ZeroVec(dy), c.kn[i]))]
MxPart(c) == MkMat(FDy(c), FDx(c), LAMBDA a, d : c.M[1][a][d])
MkCol(c, i) == MkVec(FDy(c), LAMBDA a : c.M[1][a][FDx(c) + i])
LogConst(c) == TermM(FQ(-1, 2), LNZero, "one", 0, LN(0, 2 * FDy(c), FMul(c.dSig[1], c.dSig[1])))

\* generic: residual map r = A z + a under the density q (component r of q); ck = the model with kernels living in z-space
FeatExpLogGeneric(ck, c0, q, r, A, a) ==
    LET L == ck.Lam[1] T == Truth(q, r) dk == FDk(ck)
        mres == VAdd(MatVec(A, T.mu), a)
        quad0 == FAdd(Trace(MatMul(L, MatMulT(MatMul(A, T.Sig), A))), Quad(mres, L, mres))
        cross(i) == LET st == ProdStats(ck, q, r, <<i>>) IN
                    T1(Quad(VAdd(MatVec(A, st.mu), a), L, MkCol(c0, i)), st.ln)
        kk(i, j) == T1(FNeg(FHalfOf(Quad(MkCol(c0, i), L, MkCol(c0, j)))), ProdStats(ck, q, r, <<i, j>>).ln)
    IN <<T1(FNeg(FHalfOf(quad0)), LNZero), LogConst(c0)>>
         \o [i \in 1..dk |-> cross(i)]
         \o [k \in 1..(dk * dk) |-> kk(((k - 1) \div dk) + 1, ((k - 1) % dk) + 1)]

FeatIntLogCond(c, q, r) ==
    FeatExpLogGeneric(EmbedKernels(c), c, q, r, HCat(Eye(FDy(c)), MNeg(MxPart(c))), VNeg(c.b[1]))
FeatIntLogCondY(c, p, r, y) ==
    FeatExpLogGeneric(c, c, p, r, MNeg(MxPart(c)), VSub(y, c.b[1]))

\* independent closed forms of the kernel expectations (convolution of Gaussians), in (mu, Sigma) form
RBFKernelExpectation(ctr, ls, m, S) ==
    LET d == Len(ctr)
        Li == Diag(MkVec(d, LAMBDA a : FMul(ls[a], ls[a])))          \* Lambda_k^-1
        dv == VSub(m, ctr)
        ID == InvDet(MAdd(S, Li))
    IN LN(FNeg(FHalfOf(Quad(dv, ID.inv, dv))), 0, FDiv(Det(Li), ID.det))
SEMKernelExpectation(w, w0, m, S) ==
    LET mh == Dot(w, m) s2 == Quad(w, S, w) IN
    LN(FNeg(FHalfOf(FDiv(FMul(FSub(mh, w0), FSub(mh, w0)), FAdd(1, s2)))), 0, FInv(FAdd(1, s2)))

\* ------------------------------------------------------------------------
\* Heteroscedastic models.  c = [cls |-> "HetExp" | "HetCosh" | "HetStep" | "HetRelu", M, b (one component),
\*   A : Dy x Da, W : Dk x (Dx + 1) with the offset in column 1]
\* ------------------------------------------------------------------------
HDy(c) == Len(c.b[1])
HDx(c) == Len(c.M[1][1])
HDk(c) == Len(c.W)
HDa(c) == Len(c.A[1])
HW(c, i) == MkVec(HDx(c), LAMBDA d : c.W[i][d + 1])
HW0(c, i) == c.W[i][1]
HSigma0(c) == MatMulT(c.A, c.A)
HAk(c, i) == Col(c.A, i)

\* E[link(h_i)] for h_i ~ N(mh, sh^2); sh is needed (rational) only for the step / relu links
LinkExpectation(cls, mh, s2, sh) ==
    CASE cls = "HetExp" -> <<T1(1, LNQ(FAdd(mh, FHalfOf(s2))))>>
      [] cls = "HetCosh" -> <<T1(FHalf, LNQ(FAdd(mh, FHalfOf(s2)))), T1(FHalf, LNQ(FAdd(FNeg(mh), FHalfOf(s2)))), T1(FI(-1), LNZero)>>
      [] cls = "HetStep" -> <<Term(1, LNZero, "Phi", FDiv(mh, sh))>>
      [] cls = "HetRelu" -> <<Term(mh, LNZero, "Phi", FDiv(mh, sh)), Term(sh, LNZero, "phi", FDiv(mh, sh))>>

(***************************************************************************)
(* C17, second clause (exp, cosh-1 and rectified-linear links): the value  *)
(* of integrate_log_conditional_y is a LOWER bound because every           *)
(* ingredient is an instance of a family of bounds that is valid for EVERY *)
(* expansion point omega > 0 (axioms: tangent of a concave function;       *)
(* f(sqrt(.)) concave for f = ln 2cosh(./2), ln cosh - Jaakkola & Jordan): *)
(*   exp:    ln(1 + e^h)     <= h/2 + F(om) + F'(om)/(2 om) (h^2 - om^2),  *)
(*                              F(om) = ln 2 + ln cosh(om/2)               *)
(*   cosh-1: ln cosh h       <= ln cosh om + tanh(om)/(2 om) (h^2 - om^2)  *)
(*   relu:   ln(1 + h), h>0  <= ln(1 + om) + (h - om)/(1 + om)             *)
(* HetK is the expectation of the right-hand side under h ~ N(mh, s2) (for *)
(* relu: over h > 0 only) at a GIVEN rational omega; the code's k_func must*)
(* equal it for every omega, which makes its own choice of omega           *)
(* irrelevant for the validity of the bound.                               *)
(* tanh(u) = 2 sigmoid(2u) - 1.                                            *)
(***************************************************************************)
HetK(cls, mh, s2, sh, om) ==
    LET Eh2 == FAdd(FMul(mh, mh), s2)
        gap == FSub(Eh2, FMul(om, om))
    IN
    CASE cls = "HetExp" ->
           LET cf == FDiv(gap, FMul(FI(4), om)) IN           \* (1/2) (1/2 tanh(om/2)) / om * gap
           <<T1(FHalfOf(mh), LNZero), TermM(1, LNZero, "one", 0, LN(0, 0, FI(4))) >> \o           \* h/2 + ln 2 (= 1/2 ln 4)
           << Term(1, LNZero, "lncosh", FHalfOf(om)),
              Term(FMul(FI(2), cf), LNZero, "sigmoid", om), T1(FNeg(cf), LNZero) >>
      [] cls = "HetCosh" ->
           LET cf == FDiv(gap, FMul(FI(2), om)) IN           \* tanh(om) / (2 om) * gap
           << Term(1, LNZero, "lncosh", om),
              Term(FMul(FI(2), cf), LNZero, "sigmoid", FMul(FI(2), om)), T1(FNeg(cf), LNZero) >>
      [] cls = "HetRelu" ->
           LET t == FDiv(mh, sh)                              \* P(h > 0) = Phi(mh / sh)
               Zh == <<Term(1, LNZero, "Phi", t)>>
               Eh == <<Term(mh, LNZero, "Phi", t), Term(sh, LNZero, "phi", t)>>
               lnw == LN(0, 0, FMul(FAdd(1, om), FAdd(1, om)))      \* ln(1 + om) = 1/2 ln (1 + om)^2
               inv == FInv(FAdd(1, om))
           IN << TermM(1, LNZero, "Phi", t, lnw) >> \o VScaleF(inv, Eh) \o VScaleF(FNeg(FMul(inv, om)), Zh)

HetMeanY(c, p, r) == VAdd(MatVec(c.M[1], Truth(p, r).mu), c.b[1])
\* sh[i]: exact sqrt(w_i' S w_i) supplied by the menu (0 if not needed)
HetCovY(c, p, r, sh) ==
    LET T == Truth(p, r)
        base == MAdd(MatMulT(MatMul(c.M[1], T.Sig), c.M[1]), HSigma0(c))
        E(i) == LinkExpectation(c.cls, FAdd(Dot(HW(c, i), T.mu), HW0(c, i)), Quad(HW(c, i), T.Sig, HW(c, i)), sh[i])
    IN MkSeq(HDy(c), LAMBDA a : MkSeq(HDy(c), LAMBDA b :
          VPlus(VConst(base[a][b]), ValSumTo([i \in 1..HDk(c) |-> VScaleF(FMul(c.A[a][i], c.A[b][i]), E(i))], HDk(c)))))
HetCovYX(c, p, r) == MatMul(c.M[1], Truth(p, r).Sig)

(***************************************************************************)
(* C17, step link: E_{p(x)}[ ln N(y; M x + b, Sigma(x)) ] with             *)
(* Sigma(x) = A A' + sum_i a_i a_i' 1[h_i(x) >= 0], for SQUARE A (Da = Dy),*)
(* where A_k' (AA')^-1 A_k = I and therefore                               *)
(*   Lambda(x) = L0 - sum_i 1/2 1[h_i >= 0] L0 a_i a_i' L0,                *)
(*   ln det Sigma(x) = ln det Sigma0 + ln 2 * sum_i 1[h_i >= 0].           *)
(* With g_i = a_i' L0 (y - M x - b) and h_i jointly Gaussian under p(x):   *)
(*   E[g^2 ; h >= 0] = (v + e0^2) H0 + 2 beta e0 H1 + beta^2 H2,           *)
(*   beta = cov(g,h)/var(h), e0 = E g - beta E h, v = var(g) - beta cov,   *)
(*   H_k = int_0^inf h^k N(h; mh, sh^2) dh  (truncated raw moments).       *)
(***************************************************************************)
StepIntLogCondY(c, p, r, y, sh) ==
    LET T == Truth(p, r)
        L0 == Inv(HSigma0(c))
        d0 == Det(HSigma0(c))
        res == VSub(y, VAdd(MatVec(c.M[1], T.mu), c.b[1]))                \* y - M m - b
        quad0 == FAdd(Trace(MatMul(L0, MatMulT(MatMul(c.M[1], T.Sig), c.M[1]))), Quad(res, L0, res))
        unit(i) ==
            LET a == HAk(c, i)
                La == MatVec(L0, a)
                cv == VecMat(La, c.M[1])                                  \* M' L0 a_i   (g = c0 - cv'x)
                mg == Dot(La, res)
                w == HW(c, i)
                mh == FAdd(Dot(w, T.mu), HW0(c, i))
                vh == FMul(sh[i], sh[i])
                cov == FNeg(Quad(cv, T.Sig, w))
                vg == Quad(cv, T.Sig, cv)
                beta == FDiv(cov, vh)
                e0 == FSub(mg, FMul(beta, mh))
                v == FSub(vg, FMul(beta, cov))
                al == FDiv(FNeg(mh), sh[i])
                H(k, coef) == TruncMomentVal(k, LNZero, mh, sh[i], FALSE, al, TRUE, 0)
                sc(coef, val) == [k \in 1..Len(val) |-> [val[k] EXCEPT !.c = FMul(coef, val[k].c)]]
                h0 == H(0, 1)
            IN \* + 1/4 E[g^2; h >= 0]  - 1/2 ln 2 * P(h >= 0)
               sc(FMul(FQ(1, 4), FAdd(v, FMul(e0, e0))), h0) \o sc(FMul(FQ(1, 2), FMul(beta, e0)), H(1, 1))
                 \o sc(FMul(FQ(1, 4), FMul(beta, beta)), H(2, 1))
                 \o [k \in 1..Len(h0) |-> TermM(FMul(FQ(-1, 2), h0[k].c), h0[k].ln, h0[k].f, h0[k].t, LNLn(2))]
    IN <<T1(FNeg(FHalfOf(quad0)), LNZero), TermM(FQ(-1, 2), LNZero, "one", 0, LN(0, 2 * HDy(c), FMul(d0, d0)))>>
         \o ValSumTo([i \in 1..HDk(c) |-> unit(i)], HDk(c))

(***************************************************************************)
(* C17, second clause, rectified-linear link: the heteroscedastic part of  *)
(* the quadratic term.  With g = a_i' L0 (y - M x - b) and h = w_i'x + w0: *)
(*   E[ g^2 relu(h) / (1 + relu(h)) ]  >=  E[ g^2 h e^{nu h + lb} ; h > 0 ] *)
(* for EVERY om > 0, nu = -1/(1+om), lb = -ln(1+om) + om/(1+om)  (tangent  *)
(* of the convex -ln(1+h)).  The right-hand side is a truncated moment of  *)
(* the tilted Gaussian N(mh + nu sh^2, sh^2):                              *)
(*   (v + e0^2) T1 + 2 beta e0 T2 + beta^2 T3,                             *)
(*   T_k = e^{lb + nu mh + nu^2 sh^2 / 2} int_0^inf h^k N(h; mh + nu sh^2, sh^2) dh *)
(* (beta, e0, v as for the step link).  HetBase is the homoscedastic part. *)
(***************************************************************************)
ReluLBI(c, p, i, y, sh, om) ==
    LET T == Truth(p, 1)
        L0 == Inv(HSigma0(c))
        res == VSub(y, VAdd(MatVec(c.M[1], T.mu), c.b[1]))
        a == HAk(c, i)
        La == MatVec(L0, a)
        cv == VecMat(La, c.M[1])
        mg == Dot(La, res)
        w == HW(c, i)
        mh == FAdd(Dot(w, T.mu), HW0(c, i))
        vh == FMul(sh[i], sh[i])
        cov == FNeg(Quad(cv, T.Sig, w))
        vg == Quad(cv, T.Sig, cv)
        beta == FDiv(cov, vh)
        e0 == FSub(mg, FMul(beta, mh))
        v == FSub(vg, FMul(beta, cov))
        nu == FNeg(FInv(FAdd(1, om)))
        mt == FAdd(mh, FMul(nu, vh))                                            \* tilted mean
        lw == LN(FAdd(FDiv(om, FAdd(1, om)), FAdd(FMul(nu, mh), FHalfOf(FMul(FMul(nu, nu), vh)))), 0,
                 FInv(FMul(FAdd(1, om), FAdd(1, om))))                              \* lb + nu mh + nu^2 vh / 2
        al == FDiv(FNeg(mt), sh[i])
        Tk(k) == TruncMomentVal(k, lw, mt, sh[i], FALSE, al, TRUE, 0)
    IN VScaleF(FAdd(v, FMul(e0, e0)), Tk(1)) \o VScaleF(FMul(FI(2), FMul(beta, e0)), Tk(2)) \o VScaleF(FMul(beta, beta), Tk(3))

\* homoscedastic ingredients of the bound: E[(y - Mx - b)' L0 (y - Mx - b)] and ln det (A A')
HetBaseQuad(c, p, y) ==
    LET T == Truth(p, 1)
        L0 == Inv(HSigma0(c))
        res == VSub(y, VAdd(MatVec(c.M[1], T.mu), c.b[1]))
    IN FAdd(Trace(MatMul(L0, MatMulT(MatMul(c.M[1], T.Sig), c.M[1]))), Quad(res, L0, res))
HetBaseLnDet(c) == LN(0, 0, FMul(Det(HSigma0(c)), Det(HSigma0(c))))       \* ln det = 1/2 ln det^2

(***************************************************************************)
(* C17, tightness at zero input weights (exp and cosh-1 links, square A):  *)
(* with w_i = 0 the noise is homoscedastic, Sigma = AA' + sum_i a_i a_i'   *)
(* link(w0_i), and E_{p(x)}[ln N(y; Mx+b, Sigma)] is available in closed   *)
(* form.  With A_k'(AA')^-1 A_k = I:                                       *)
(*   Lambda = L0 - sum_i g_i L0 a_i a_i' L0,  g_i = link/(1+link)          *)
(*   ln det Sigma = ln det Sigma0 + sum_i ln(1 + link(w0_i))               *)
(* exp:    g = sigmoid(w0), ln(1+link) = ln(1+e^w0)  (atoms "sigmoid", "ln1pexp")   *)
(* cosh-1: g = 1 - sech(w0), ln(1+link) = ln cosh(w0) (atoms "sech", "lncosh")      *)
(* The library's bound must EQUAL this value (gap exactly zero).           *)
(***************************************************************************)
ZeroWIntLogCondY(c, p, r, y) ==
    LET T == Truth(p, r)
        L0 == Inv(HSigma0(c))
        d0 == Det(HSigma0(c))
        res == VSub(y, VAdd(MatVec(c.M[1], T.mu), c.b[1]))
        quad0 == FAdd(Trace(MatMul(L0, MatMulT(MatMul(c.M[1], T.Sig), c.M[1]))), Quad(res, L0, res))
        unit(i) ==
            LET a == HAk(c, i)
                La == MatVec(L0, a)
                cv == VecMat(La, c.M[1])
                Eg2 == FAdd(FMul(Dot(La, res), Dot(La, res)), Quad(cv, T.Sig, cv))     \* E[(a' L0 r)^2]
                w0 == HW0(c, i)
            IN IF c.cls = "HetExp"
               THEN <<Term(FHalfOf(Eg2), LNZero, "sigmoid", w0), Term(FQ(-1, 2), LNZero, "ln1pexp", w0)>>
               ELSE <<T1(FHalfOf(Eg2), LNZero), Term(FNeg(FHalfOf(Eg2)), LNZero, "sech", w0), Term(FQ(-1, 2), LNZero, "lncosh", w0)>>
    IN <<T1(FNeg(FHalfOf(quad0)), LNZero), TermM(FQ(-1, 2), LNZero, "one", 0, LN(0, 2 * HDy(c), FMul(d0, d0)))>>
         \o ValSumTo([i \in 1..HDk(c) |-> unit(i)], HDk(c))
=============================================================================
