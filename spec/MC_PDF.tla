------------------------------- MODULE MC_PDF -------------------------------
(***************************************************************************)
(* Densities: marginals, linear images, conditioning on coordinates,       *)
(* entropy, KL, update, slicing (C05, C06, C13, C12, C02).                 *)
(* Scenario: 1 construct p;  2 one operation chosen by Ops;  3.. follow-up *)
(* evaluations of the result.                                              *)
(***************************************************************************)
EXTENDS GT

CONSTANTS Ds, Rs, Offs, Ops, PdfKinds

n == Len(hist)
p1 == heap[1]
d0 == NumD(p1)

\* all non-empty sequences of distinct coordinates (every subset in every order)
RECURSIVE Perms(_)
Perms(S) == IF S = {} THEN {<<>>} ELSE UNION {{<<x>> \o t : t \in Perms(S \ {x})} : x \in S}
DistinctSeqs(d) == UNION {Perms(S) : S \in (SUBSET (1..d)) \ {{}}}
ProperSeqs(d) == UNION {Perms(S) : S \in (SUBSET (1..d)) \ {{}, 1..d}}

\* weight matrices for linear sums: ds x d, full row rank, asymmetric
WMenu(ds, d) ==
    << Q([a \in 1..ds |-> [b \in 1..d |-> IF a = b THEN 2 ELSE IF a < b THEN 1 ELSE -1]], 1),
       Q([a \in 1..ds |-> [b \in 1..d |-> IF a = b THEN 1 ELSE IF a < b THEN -3 ELSE 1]], 2),
       Q([a \in 1..ds |-> [b \in 1..d |-> IF a = b THEN 3 ELSE IF a < b THEN 0 ELSE 2]], 1) >>

NewP(k, d, R, s) ==
    CASE k = "PDF:S" -> ANewPdf("PDF", "S", d, R, s)
      [] k = "PDF:SL" -> ANewPdf("PDF", "SL", d, R, s)
      [] k = "PDF:SLD" -> ANewPdf("PDF", "SLD", d, R, s)
      [] k = "DiagPDF:S" -> ANewPdf("DiagPDF", "S", d, R, s)
      [] k = "DiagPDF:SLD" -> ANewPdf("DiagPDF", "SLD", d, R, s)

Init == heap = <<>> /\ hist = <<>>

Op ==
    \/ "marginal" \in Ops /\ \E dims \in DistinctSeqs(d0) : AMarginal(1, dims)
    \/ "linear_sum" \in Ops /\ \E ds \in 1..d0, s \in {0, 1}, bm \in {"none", "given", "big"} :
           ALinearSum(1, Pick(WMenu(ds, d0), NumR(p1), s), Pick(VEC2(ds), NumR(p1), s), bm)
    \/ "condition_on" \in Ops /\ \E dy \in ProperSeqs(d0) : AConditionOn(1, dy)
    \/ "condition_on_explicit" \in Ops /\
           \E dy \in ProperSeqs(d0) : \E dx \in Perms((1..d0) \ {dy[k] : k \in 1..Len(dy)}) : AConditionOnExplicit(1, dy, dx)
    \/ "entropy" \in Ops /\ AEntropy(1)

\* follow-up on the object created in step 2 (heap[2]) so that the code's evaluation paths are exercised too
Follow ==
    LET o == heap[2] IN
    IF IsCond(o) THEN ACondOnX(2, 2, 0, "call")
    ELSE AEvaluate(2, LatticeSeq(NumD(o)), FALSE, "evaluate_ln")

Follow2 ==
    LET o == heap[3] IN AEvaluate(3, LatticeSeq(NumD(o)), FALSE, "evaluate_ln")

\* two-density operations: KL divergence (R equal or one side single) and update(idx, q)
TwoOps == Ops \cap {"kl", "update", "update_neg"}
IdxSeqs(R, m) == {t \in DistinctSeqs(R) : Len(t) = m}

Op2 ==
    LET q == heap[2] IN
    \/ "kl" \in Ops /\ (NumR(p1) = NumR(q) \/ NumR(p1) = 1 \/ NumR(q) = 1) /\ AKL(1, 2)
    \/ "kl" \in Ops /\ NumR(q) = 1 /\ AKL(1, 1)                  \* KL(p, p) = 0
    \/ "update" \in Ops /\ NumR(q) <= NumR(p1) /\ \E idx \in IdxSeqs(NumR(p1), NumR(q)) : AUpdate(1, idx, 2)
    \/ "update_neg" \in Ops /\ NumR(q) <= NumR(p1) /\ \E idx \in IdxSeqs(NumR(p1), NumR(q)) :
           \E neg \in {1..Len(idx), {k \in 1..Len(idx) : k % 2 = 1}} : AUpdateN(1, idx, 2, neg)

Next ==
    IF TwoOps = {}
    THEN \/ n = 0 /\ \E d \in Ds, k \in PdfKinds, R \in Rs, s \in Offs : NewP(k, d, R, s)
         \/ n = 1 /\ Op
         \/ n = 2 /\ Len(heap) >= 2 /\ Follow
         \/ n = 3 /\ Len(heap) >= 3 /\ Follow2
    ELSE \/ n = 0 /\ \E d \in Ds, k \in PdfKinds, R \in Rs, s \in Offs : NewP(k, d, R, s)
         \/ n = 1 /\ \E k \in PdfKinds, R \in Rs, s \in Offs : NewP(k, d0, R, s + 1)
         \/ n = 2 /\ Op2
         \/ n = 3 /\ hist[3].act = "Update" /\ AEvaluate(1, LatticeSeq(d0), FALSE, "evaluate_ln")
         \/ n = 4 /\ AQuery(1, "log_integral")
         \/ n = 5 /\ ASlice(1, AllComps(p1), Minus1(AllComps(p1)))

Done == IF TwoOps = {}
        THEN \/ n = 2 /\ Len(heap) < 2
             \/ n = 3 /\ Len(heap) < 3
             \/ n = 4
        ELSE \/ n = 3 /\ hist[3].act # "Update"
             \/ n = 6
Inv_Export == Export(Done)
=============================================================================
