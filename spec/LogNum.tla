------------------------------- MODULE LogNum -------------------------------
(***************************************************************************)
(* L1 number domain: log-numbers.  A record [q, k, r] denotes the real     *)
(*        q + k * (1/2) ln(2 pi) + (1/2) ln(r)                             *)
(* with q, r field elements (r a positive rational) and k an integer.      *)
(* Closed under addition, negation and integer scaling.  Because pi is     *)
(* transcendental and ln r is irrational for rational r # 1, the           *)
(* representation is canonical up to the choice of r (ln is only used for  *)
(* products of determinants), so equality of records is equality of reals. *)
(* Everything the linear-Gaussian part of the library computes in log      *)
(* space lives here: lnZ, ln_beta, log_integral, entropy, KL, MI,          *)
(* normalisers of set_y, log-densities.                                    *)
(***************************************************************************)
EXTENDS LinAlg

LN(q, k, r) == [q |-> q, k |-> k, r |-> r]
LNZero == LN(0, 0, 1)
LNQ(q) == LN(q, 0, 1)                     \* the rational q
LNHalfLn(r) == LN(0, 0, r)                \* (1/2) ln r
LNLn(r) == LN(0, 0, FMul(r, r))           \* ln r
LNAdd(a, b) == LN(FAdd(a.q, b.q), a.k + b.k, FMul(a.r, b.r))
LNNeg(a) == LN(FNeg(a.q), 0 - a.k, FInv(a.r))
LNSub(a, b) == LNAdd(a, LNNeg(b))
LNAddQ(a, q) == LN(FAdd(a.q, q), a.k, a.r)
LNEq(a, b) == FEq(a.q, b.q) /\ a.k = b.k /\ FEq(a.r, b.r)
LNAdd3(a, b, c) == LNAdd(a, LNAdd(b, c))

RECURSIVE LNSumTo(_, _)
LNSumTo(s, k) == IF k = 0 THEN LNZero ELSE LNAdd(s[k], LNSumTo(s, k - 1))

LNVecEq(a, b) == Len(a) = Len(b) /\ \A i \in 1..Len(a) : LNEq(a[i], b[i])
=============================================================================
