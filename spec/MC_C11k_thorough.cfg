CONSTANTS
  P = 46337
  Mode = "kalman"
  Dims = {11, 12, 22, 21}
  Ns = {6}
  Routes = {}
  Offs = {0, 1, 2}
  CondKinds = {"Cond", "CondId"}
  IidModes = {FALSE}
INIT Init
NEXT Next
CHECK_DEADLOCK FALSE
PROPERTY Prop_Frame
INVARIANT Inv_CacheCoherent
INVARIANT Inv_PdfNormalised
INVARIANT Inv_CondCoherent
INVARIANT Inv_Kalman
INVARIANT Inv_Export
