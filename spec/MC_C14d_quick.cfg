CONSTANTS
  P = 46337
  Classes = {"LRBF", "LSEM"}
  Dims = {11, 12, 21, 22}
  Dks = {1, 2}
  Das = {2, 3}
  Rs = {1, 2}
  JointQ = FALSE
  Bound = FALSE
  Offs = {0, 1}
INIT Init
NEXT Next
CHECK_DEADLOCK FALSE
PROPERTY Prop_Frame
INVARIANT Inv_CacheCoherent
INVARIANT Inv_PdfNormalised
INVARIANT Inv_KernelUnitHeight
INVARIANT Inv_KernelExpectation
INVARIANT Inv_HetSh
INVARIANT Inv_Export
