CONSTANTS
  P = 46337
  Family = "cond"
  Dims = {22, 12, 21}
  CondKinds = {"Cond", "CondDiag", "CondId", "CondIdDiag"}
  PKinds = {"PDF:S", "DiagPDF:S"}
  Ops = {"int_log_cond_y", "int_log_cond_y2", "defer"}
  Offs = {0}
INIT Init
NEXT Next
CHECK_DEADLOCK FALSE
PROPERTY Prop_Frame
INVARIANT Inv_CacheCoherent
INVARIANT Inv_PdfNormalised
INVARIANT Inv_ReportedMass
INVARIANT Inv_CondCoherent
INVARIANT Inv_Pointwise
INVARIANT Inv_Transform
INVARIANT Inv_Info
INVARIANT Inv_EntropyKL
INVARIANT Inv_Marginal
INVARIANT Inv_ConditionOn
INVARIANT Inv_Update
INVARIANT Inv_UpdateSigma
INVARIANT Inv_IntLogCond
INVARIANT Inv_Normalize
INVARIANT Inv_CondOnX
INVARIANT Inv_Export
