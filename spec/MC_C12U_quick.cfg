CONSTANTS
  P = 46337
  Ds = {1}
  Rs = {1, 3, 4}
  Offs = {0}
  Ops = {"update", "update_neg"}
  PdfKinds = {"PDF:S", "DiagPDF:S"}
INIT Init
NEXT Next
CHECK_DEADLOCK FALSE
PROPERTY Prop_Frame
INVARIANT Inv_CacheCoherent
INVARIANT Inv_PdfNormalised
INVARIANT Inv_EntropyKL
INVARIANT Inv_Update
INVARIANT Inv_Slice
INVARIANT Inv_Export
