CONSTANTS
  P = 46337
  Mode = "static"
  Dims = {11, 12, 21, 22, 31, 13}
  Ns = {2, 3, 4}
  Routes = {"seq", "factor", "joint"}
  Offs = {0, 1}
  CondKinds = {"Cond", "CondDiag", "CondId", "CondIdDiag"}
  IidModes = {FALSE, TRUE}
INIT Init
NEXT Next
CHECK_DEADLOCK FALSE
PROPERTY Prop_Frame
INVARIANT Inv_CacheCoherent
INVARIANT Inv_PdfNormalised
INVARIANT Inv_ReportedMass
INVARIANT Inv_CondCoherent
INVARIANT Inv_Static
INVARIANT Inv_Export
