#!/usr/bin/env python3
"""Rewrite the table of DESIGN.md section 8 from the evidence files of the last quick run of every property."""
import json, os, re
here = os.path.dirname(os.path.abspath(__file__))
rows = []
for i in range(1, 21):
    pid = "C%02d" % i
    e = json.load(open(os.path.join(here, "evidence", pid + ".json")))
    c = e["coverage"]
    mods = sorted({x["module"] for x in c.get("instances", [])})
    rows.append("| %s | %s | %s | %s | %s | %s | %.0f s |" % (
        pid, e["tier"], format(c.get("states", 0), ","), format(c.get("traces_validated_against_impl", 0), ","),
        format(c.get("evaluations", 0), ","), ", ".join(m.replace("MC_", "") for m in mods), e.get("wall_s", 0)))
table = ("| id | tier | TLC states | behaviours / traces replayed | library calls | scenario modules | wall |\n|---|---|---|---|---|---|---|\n"
         + "\n".join(rows) + "\n")
p = os.path.join(here, "DESIGN.md")
s = open(p).read()
m = re.search(r"(## 8\. Measured bounds and cost[^\n]*\n\n)(\|.*?\n)\n", s, re.S)
s = s[:m.start(2)] + table + s[m.end(2):]
open(p, "w").write(s)
print(table)
