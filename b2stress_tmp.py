import sys, time, collections
sys.path.insert(0,'.')
from harness import b2, driver
for seed in (11, 12, 13):
    t=time.time()
    mms, stats, nt, ne = b2.validate(seed=seed, n_traces=400, length=12, family="MC", nprimes=14)
    print("seed", seed, stats['distinct'], nt, ne, round(time.time()-t), "mismatches", len(mms), b2.counters, flush=True)
    for mm,_ in mms[:10]: print("  ", mm['act'], mm['field'], mm['note'], str(mm['observed'])[:120], str(mm['expected'])[:120], mm['ctx'], flush=True)
ss=driver.generate(11, 400, 12, "MC")
print(collections.Counter(e['op'] for s in ss for e in s.events))
