"""Bindings for truncated one-dimensional measures (experimental/truncated_measure.py), C20."""
from __future__ import annotations

import math

import numpy as np
from jax import numpy as jnp

from gaussian_toolbox.experimental import truncated_measure

from .atoms import val_magnitude, val_value
from .decode import qval, to_float
from .replay import A, Mismatch, binding, stack_q

TOL = 1e-8


def _limits(a, R):
    lims = a["lims"]
    lo = [-math.inf if lm["loInf"] else float(qval(lm["lo"])) for lm in lims]
    hi = [math.inf if lm["hiInf"] else float(qval(lm["hi"])) for lm in lims]
    if a["lmode"] == "array":
        return A([[x] for x in lo]), A([[x] for x in hi])
    lm = lims[0]
    kw_lo = None if lm["loInf"] and not lm["hiInf"] else lo[0]
    kw_hi = None if lm["hiInf"] and not lm["loInf"] else hi[0]
    return kw_lo, kw_hi


@binding("NewTrunc")
def _new_trunc(rp, st):
    a = st["a"]
    u = rp.heap[a["i"]]
    lo, hi = _limits(a, int(u.R))
    cls = truncated_measure.TruncatedGaussianMeasure if a["cls"] == "Trunc" else truncated_measure.TruncatedGaussianPDF
    return cls(measure=u, lower_limit=lo, upper_limit=hi), None


def _scale(sc, k):
    """upper bound of the untruncated integral of |x|^k u(x): mass * (E x^k')^(k/k'), k' = k or k+1 (even)."""
    kk = k if k % 2 == 0 else k + 1
    out = []
    for ln, c in zip(sc["ln"], sc["c"]):
        m = max(float(c), 0.0)
        out.append(math.exp(float(ln)) * (m ** (k / kk) if kk > 0 else 1.0))
    return out


@binding("TruncIntegrate")
def _trunc_integrate(rp, st):
    a = st["a"]
    t = rp.heap[a["i"]]
    key, k = a["key"], int(a["k"])
    val = t.integrate(key, k=k) if key == "x**k" else t.integrate(key)

    def chk(val, exp):
        val = np.asarray(val, dtype=float)
        R = len(exp["scale"]["ln"])
        obs = val.reshape(R, -1)
        if obs.shape[1] != 1:
            raise Mismatch("return", list(val.shape), [R] if key == "1" else [R, 1], "shape")
        scale = _scale(exp["scale"], k)
        for r in range(R):
            if "val" in exp:
                e = val_value(exp["val"][r])
                tol = TOL * max(scale[r], 1e-300) + 1e-13 * val_magnitude(exp["val"][r])
            else:
                num, den = val_value(exp["num"][r]), val_value(exp["den"][r])
                if den <= 1e-13 * max(val_magnitude(exp["den"][r]), 1e-300):
                    rp.count("far_tail_ratio_skipped")
                    continue   # truncated mass below the resolution of the cdf difference: ratio not decidable in float64
                e = num / den
                tol = (TOL * scale[r] + 1e-13 * (val_magnitude(exp["num"][r]) + abs(e) * val_magnitude(exp["den"][r]))) / den
            if not math.isfinite(obs[r, 0]) or abs(obs[r, 0] - e) > tol:
                raise Mismatch("return", val.tolist(), {"component": r, "expected": e, "tol": tol}, f"value k={k}")
    return None, ("custom", val, chk)


@binding("TruncCall")
def _trunc_call(rp, st):
    a = st["a"]
    t = rp.heap[a["i"]]
    x = stack_q(a["x"])
    ew = bool(a["elementwise"])
    val = t(x, element_wise=ew)

    def chk(val, exp):
        val = np.asarray(val, dtype=float)
        cells = exp["cells"]
        R = len(cells)
        for r in range(R):
            row = [cells[r]] if ew else cells[r]
            den = 1.0
            rel = TOL
            if exp["den"]:
                den = val_value(exp["den"][r])
                mag = val_magnitude(exp["den"][r])
                if den <= 1e-13 * max(mag, 1e-300):
                    rp.count("far_tail_ratio_skipped")
                    continue
                rel = max(TOL, 1e-13 * mag / den)
            for n, cell in enumerate(row):
                o = val[r] if ew else val[r, n]
                e = math.exp(float(cell["ln"])) / den if cell["inside"] else 0.0
                if not math.isfinite(o) or abs(o - e) > rel * abs(e):
                    raise Mismatch("return", val.tolist(), {"component": r, "point": n, "expected": e, "inside": cell["inside"]}, "value")
    return None, ("custom", val, chk)


@binding("TruncGetDensity")
def _trunc_get_density(rp, st):
    return rp.heap[st["a"]["i"]].get_density(), None


@binding("TruncStat")
def _trunc_stat(rp, st):
    a = st["a"]
    t = rp.heap[a["i"]]
    val = t.get_mean() if a["what"] == "mean" else t.get_variance()

    def chk(val, exp):
        val = np.asarray(val, dtype=float)
        R = len(exp["m0"])
        obs = val.reshape(R, -1)
        for r in range(R):
            m0, m1, m2 = (val_value(exp[k][r]) for k in ("m0", "m1", "m2"))
            mag = sum(val_magnitude(exp[k][r]) for k in ("m0", "m1", "m2"))
            if m0 <= 1e-10 * max(mag, 1e-300):
                rp.count("far_tail_ratio_skipped")
                continue
            mean = m1 / m0
            e = mean if a["what"] == "mean" else m2 / m0 - mean * mean
            tol = (TOL + 1e-12 * mag / m0) * max(1.0, abs(mean), abs(m2 / m0)) * (1.0 + (abs(mean) if a["what"] != "mean" else 0.0))
            if not math.isfinite(obs[r, 0]) or abs(obs[r, 0] - e) > tol:
                raise Mismatch("return", val.tolist(), {"component": r, "expected": e, "tol": tol}, a["what"])
    return None, ("custom", val, chk)
