"""Bindings for the approximate conditionals (approximate_conditional.py), C16 / C17."""
from __future__ import annotations

import math

import numpy as np
from jax import numpy as jnp

from gaussian_toolbox import approximate_conditional as ac
from gaussian_toolbox import conditional, pdf

from .atoms import val_value
from .decode import qarr, to_float
from .replay import A, Mismatch, binding, cmp_lin, stack_q, _opt

HET = {"HetExp": ac.HeteroscedasticExpConditional, "HetCosh": ac.HeteroscedasticCoshM1Conditional,
       "HetStep": ac.HeteroscedasticHeavisideConditional, "HetRelu": ac.HeteroscedasticReLUConditional}


def vals(x):
    """nested lists of Vals -> numpy array of floats (a Val is a list of term dicts)."""
    if isinstance(x, list) and (len(x) == 0 or isinstance(x[0], dict)):
        return val_value(x)
    return [vals(v) for v in x]


def check_valpdf(obj, exp, where):
    """exp: [cls ValPDF, mu, Sig] with Val entries. Also the coherence of the code's own density object (C02 / C04)."""
    if not isinstance(obj, pdf.GaussianPDF):
        raise Mismatch(where + ".class", type(obj).__name__, "GaussianPDF", "not a density")
    mu = np.asarray(vals(exp["mu"]), dtype=float)
    Sig = np.asarray(vals(exp["Sig"]), dtype=float)
    if int(obj.R) != mu.shape[0]:
        raise Mismatch(where + ".R", int(obj.R), mu.shape[0], "number of components")
    cmp_lin(where + ".mu", _opt(obj, "mu"), mu)
    cmp_lin(where + ".Sigma", _opt(obj, "Sigma"), Sig)
    check_pdf_coherent(obj, where)


def check_pdf_coherent(obj, where):
    S = np.asarray(obj.Sigma, dtype=float)
    L = np.asarray(obj.Lambda, dtype=float)
    D = S.shape[-1]
    eye = np.einsum("rab,rbc->rac", S, L)
    cmp_lin(where + ".Sigma*Lambda", eye, np.tile(np.eye(D)[None], (S.shape[0], 1, 1)))
    sign, ld = np.linalg.slogdet(S)
    cmp_lin(where + ".ln_det_Sigma", _opt(obj, "ln_det_Sigma"), ld)
    m = np.asarray(obj.mu, dtype=float)
    cmp_lin(where + ".nu", _opt(obj, "nu"), np.einsum("rab,rb->ra", L, m))
    lnZ = 0.5 * (np.einsum("ra,rab,rb->r", m, L, m) + D * math.log(2 * math.pi) + ld)
    cmp_lin(where + ".ln_beta", _opt(obj, "ln_beta"), -lnZ)


@binding("NewFeat")
def _new_feat(rp, st):
    a = st["a"]
    M = A([qarr(a["M"])])
    b = A([qarr(a["b"])])
    Sigma = A([qarr(a["Sigma"])])
    if a["cls"] == "LRBF":
        return ac.LRBFGaussianConditional(M=M, b=b, mu=stack_q(a["centres"]), length_scale=stack_q(a["length_scale"]),
                                          Sigma=Sigma), None
    w0 = stack_q(a["w0"])
    W = jnp.concatenate([w0[:, None], stack_q(a["centres"])], axis=1)
    return ac.LSEMGaussianConditional(M=M, b=b, W=W, Sigma=Sigma), None


@binding("NewHet")
def _new_het(rp, st):
    a = st["a"]
    return HET[a["cls"]](M=A([qarr(a["M"])]), b=A([qarr(a["b"])]), A=A([qarr(a["A"])]), W=A(qarr(a["W"]))), None


@binding("ApproxCondOnX")
def _approx_cond_on_x(rp, st):
    a = st["a"]
    return rp.heap[a["i"]].condition_on_x(stack_q(a["x"])), None


@binding("ApproxTransform")
def _approx_transform(rp, st):
    a = st["a"]
    c, p = rp.heap[a["i"]], rp.heap[a["j"]]
    res = getattr(c, f"affine_{a['kind']}_transformation")(p)
    if a["kind"] != "conditional":
        return res, None
    # the conditional transformation is the Gaussian conditional of the moment-matched joint (validated in its own
    # behaviours against the specification): compare with condition_on applied to the code's joint
    joint = c.affine_joint_transformation(p)
    Dx, D = int(p.D), int(joint.D)
    ref = joint.condition_on(jnp.arange(Dx, D))

    def chk(_val, _exp):
        if not isinstance(res, conditional.ConditionalGaussianPDF):
            raise Mismatch("result.class", type(res).__name__, "ConditionalGaussianPDF", "not a conditional")
        cmp_lin("result.M", np.asarray(res.M), np.asarray(ref.M))
        cmp_lin("result.b", np.asarray(res.b), np.asarray(ref.b))
        cmp_lin("result.Sigma", np.asarray(res.Sigma), np.asarray(ref.Sigma))
        S, L = np.asarray(res.Sigma), np.asarray(res.Lambda)
        cmp_lin("result.Sigma*Lambda", np.einsum("rab,rbc->rac", S, L), np.tile(np.eye(S.shape[-1])[None], (S.shape[0], 1, 1)))
        cmp_lin("result.ln_det_Sigma", np.asarray(res.ln_det_Sigma), np.linalg.slogdet(S)[1])
    return res, ("custom", None, chk)


@binding("HetIntLogCondY")
def _het_int_log_cond_y(rp, st):
    a = st["a"]
    c, p = rp.heap[a["i"]], rp.heap[a["j"]]
    val = c.integrate_log_conditional_y(p, y=stack_q(a["y"]))
    _flag_collinear(rp, c)

    def chk(val, exp):
        e = np.asarray([val_value(v) for v in exp["val"]], dtype=float)
        cmp_lin("return", np.asarray(val, dtype=float).reshape(-1), e)
    return None, ("custom", val, chk)


class _NotExposed(Exception):
    """The code no longer exposes this internal ingredient under the expected name / signature: no verdict."""


def _ingredient(rp, fn, *args, **kw):
    # k_func / _lower_bound_integrals / _get_omega_* are internals of the bound: a refactoring may rename or re-sign them
    # without changing any property; then these steps give no verdict (counted), they never raise an alarm.
    try:
        return fn(*args, **kw)
    except (AttributeError, TypeError) as e:
        rp.count("bound_ingredient_not_exposed")
        raise _NotExposed(str(e))


def _flag_collinear(rp, c):
    # degenerate geometry: the projected mean map of a noise direction is collinear with its gate weights, so that
    # (a_i' L0 (y - M x - b), h_i(x)) is a singular Gaussian pair (recorded in the context for known-finding KF-4)
    try:
        Mm, Am, Wm = np.asarray(c.M)[0], np.asarray(c.A)[0], np.asarray(c.W)
        L0 = np.linalg.inv(Am @ Am.T)
        for i in range(Wm.shape[0]):
            cv, w = Mm.T @ L0 @ Am[:, i], Wm[i, 1:]
            if len(w) > 1 and abs(abs(cv @ w) - np.linalg.norm(cv) * np.linalg.norm(w)) < 1e-12 * max(1.0, np.linalg.norm(cv) * np.linalg.norm(w)):
                rp.extra_ctx["collinear"] = True
    except Exception:
        pass


def _flag_zero_unit(rp, c):
    try:
        if bool(np.any(np.all(np.asarray(c.W) == 0.0, axis=1))):
            rp.extra_ctx["zero_unit"] = True      # a noise unit with w = 0 and w0 = 0 (outside C17: non-zero offsets)
    except Exception:
        pass


@binding("HetK")
def _het_k(rp, st):
    a = st["a"]
    c, p = rp.heap[a["i"]], rp.heap[a["j"]]
    _flag_zero_unit(rp, c)
    om = jnp.asarray([a["omega"]["n"] / a["omega"]["d"]])
    try:
        val = _ingredient(rp, lambda: c.k_func(p_x=p, W_i=c.W[int(a["u"]) - 1], omega_dagger=om))
    except _NotExposed:
        return None, ("custom", None, lambda v, e: None)

    def chk(val, exp):
        e = np.asarray([val_value(v) for v in exp["val"]], dtype=float)
        cmp_lin("return", np.asarray(val, dtype=float).reshape(-1), e)
    return None, ("custom", val, chk)


@binding("HetLBI")
def _het_lbi(rp, st):
    a = st["a"]
    c, p = rp.heap[a["i"]], rp.heap[a["j"]]
    _flag_collinear(rp, c)
    u = int(a["u"]) - 1
    om = jnp.asarray([a["omega"]["n"] / a["omega"]["d"]])
    y = stack_q(a["y"])
    try:
        a_inv = jnp.einsum("abc,acd->abd", c.Lambda, c.A[:, :, :c.Dk])[0]          # Lambda0 A_k, as the bound uses it
        val = _ingredient(rp, lambda: c._lower_bound_integrals(p, y, c.W[u], a_inv.T[u], om))
    except _NotExposed:
        return None, ("custom", None, lambda v, e: None)

    def chk(val, exp):
        e = np.asarray([val_value(v) for v in exp["val"]], dtype=float)
        cmp_lin("return", np.asarray(val, dtype=float).reshape(-1), e)
    return None, ("custom", val, chk)


@binding("HetLBAssembly")
def _het_lb_assembly(rp, st):
    a = st["a"]
    c, p = rp.heap[a["i"]], rp.heap[a["j"]]
    _flag_zero_unit(rp, c)
    _flag_collinear(rp, c)
    y = stack_q(a["y"])
    lb = c.integrate_log_conditional_y(p, y=y)
    try:
        a_inv = jnp.einsum("abc,acd->abd", c.Lambda, c.A[:, :, :c.Dk])[0]
        ks, lbis = [], []
        for u in range(int(c.Dk)):
            od = _ingredient(rp, lambda: c._get_omega_dagger(p_x=p, W_i=c.W[u]))
            os_ = _ingredient(rp, lambda: c._get_omega_star(p_x=p, y=y, W_i=c.W[u], a_i=a_inv.T[u]))
            ks.append(_ingredient(rp, lambda: c.k_func(p_x=p, W_i=c.W[u], omega_dagger=od)))
            lbis.append(_ingredient(rp, lambda: c._lower_bound_integrals(p, y, c.W[u], a_inv.T[u], os_)))
        parts = (jnp.sum(jnp.stack([jnp.ravel(k)[0] for k in ks])), jnp.sum(jnp.stack([jnp.ravel(v)[0] for v in lbis])))
    except _NotExposed:
        return None, ("custom", None, lambda v, e: None)

    def chk(val, exp):
        lbv, (ksum, lsum) = val
        quad0 = float(exp["quad0"])
        lndet0 = float(exp["lndet0"])
        dy = int(np.asarray(c.Dy))
        e = -0.5 * (quad0 - float(lsum) + lndet0 + float(ksum) + dy * np.log(2.0 * np.pi))
        cmp_lin("return", np.asarray(lbv, dtype=float).reshape(-1), np.asarray([e]))
    return None, ("custom", (lb, parts), chk)


def _val_rows(exp):
    return np.asarray([val_value(v) for v in exp["val"]], dtype=float)


@binding("FeatIntLogCond")
def _feat_int_log_cond(rp, st):
    a = st["a"]
    val = rp.heap[a["i"]].integrate_log_conditional(rp.heap[a["j"]])

    def chk(val, exp):
        cmp_lin("return", np.asarray(val, dtype=float).reshape(-1), _val_rows(exp))
    return None, ("custom", val, chk)


@binding("FeatIntLogCondY")
def _feat_int_log_cond_y(rp, st):
    a = st["a"]
    c, p = rp.heap[a["i"]], rp.heap[a["j"]]
    y = stack_q(a["y"])
    val = c.integrate_log_conditional_y(p)(y) if a["via"] == "callable" else c.integrate_log_conditional_y(p, y=y)

    def chk(val, exp):
        cmp_lin("return", np.asarray(val, dtype=float).reshape(-1), _val_rows(exp))
    return None, ("custom", val, chk)
