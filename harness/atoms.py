"""Evaluation of values with atoms (GT Val): sum of c * exp(ln) * f(t), f in {one, Phi, phi}.

This evaluator, decode.py and the comparators in replay.py are the whole numerical trusted base of the
harness; none of them contains Gaussian algebra.
"""
import math

SQRT2 = math.sqrt(2.0)
INV_SQRT_2PI = 1.0 / math.sqrt(2.0 * math.pi)


def Phi(t: float) -> float:
    return 0.5 * math.erfc(-t / SQRT2)


def phi(t: float) -> float:
    return INV_SQRT_2PI * math.exp(-0.5 * t * t)


def term_value(term) -> float:
    c = float(term["c"])
    if c == 0.0:
        return 0.0
    w = math.exp(float(term["ln"]))
    if term.get("hm"):
        w *= float(term["m"])
    f = term["f"]
    t = float(term["t"])
    if f == "one":
        return c * w
    if f == "Phi":
        return c * w * Phi(t)
    if f == "phi":
        return c * w * phi(t)
    if f == "sigmoid":
        return c * w / (1.0 + math.exp(-t))
    if f == "ln1pexp":
        return c * w * (math.log1p(math.exp(-abs(t))) + max(t, 0.0))
    if f == "sech":
        return c * w / math.cosh(t)
    if f == "lncosh":
        return c * w * (abs(t) + math.log1p(math.exp(-2.0 * abs(t))) - math.log(2.0))
    raise KeyError(f)


def val_value(val) -> float:
    """math.fsum of the terms (exactly rounded sum, so that cancelling atoms do not lose more than the atoms' own rounding)."""
    return math.fsum(term_value(t) for t in val)


def val_magnitude(val) -> float:
    return math.fsum(abs(term_value(t)) for t in val)
