"""C18 mechanisms (ii) and (iii): behaviours of the specification executed as JAX programs.

  * run_traced(beh, t): executes a behaviour WITHOUT comparisons and returns the sum of all log-type
    returned arrays as one scalar, with every constructed input array perturbed by t * delta (delta a fixed
    deterministic direction, symmetric for symmetric matrices).  Used for
        jit(whole program)(0)  ==  eager(0)          and        grad(program)(0)  ~  central differences.
  * kalman_scan(beh): the Kalman filter of an MC_C11 behaviour as lax.scan with the filter density as carry.
  * vmap_checks(beh): evaluation / set_y / condition_on_x vmapped over the data axis, compared with the
    specification's expected values.
"""
from __future__ import annotations

import math

import numpy as np
import jax
from jax import numpy as jnp

from . import replay
from .decode import to_float
from .replay import Mismatch, cmp_lin

SKIP_ACTS = replay.NOJIT | {"Integrate"}      # Integrate returns via a custom checker; still executed, value used below


class _Perturb:
    """Context in which replay.A() adds t * delta to every array it builds."""

    def __init__(self, t):
        self.t, self.counter = t, 0

    def __call__(self, x):
        base = np.array(x, dtype=float)
        self.counter += 1
        rng = np.random.RandomState(1000 + self.counter)
        delta = rng.uniform(-1.0, 1.0, size=base.shape)
        if base.ndim >= 2 and base.shape[-1] == base.shape[-2] and np.allclose(base, np.swapaxes(base, -1, -2)):
            delta = 0.5 * (delta + np.swapaxes(delta, -1, -2))
        return jnp.asarray(base) + self.t * jnp.asarray(delta)


def run_traced(beh, t):
    """Sum of all 'ln'-kind returns and of the defining parameters of every created object (a smooth scalar)."""
    rp = replay.Replayer(mode="trace")
    pert = _Perturb(t)
    old_A = replay.A
    replay.A = pert
    replay.bindings_cond.A = pert
    total = jnp.zeros(())
    try:
        for st in beh:
            if st["act"] in replay.NOJIT or st["a"].get("raises"):
                continue
            fn = replay.BINDINGS[st["act"]]
            new, ret = fn(rp, st)
            if st["id"]:
                rp.heap[st["id"]] = new
                rp.expect[st["id"]] = st["o"]
                rp.flags[st["id"]] = {}
                for name in ("ln_beta", "nu", "mu", "b", "ln_det_Sigma"):
                    v = getattr(new, name, None)
                    if v is not None and not callable(v):
                        total = total + jnp.sum(v)
            if ret is not None and ret[0] in ("ln", "custom") and ret[1] is not None:
                for leaf in jax.tree_util.tree_leaves(ret[1]):      # custom returns may be tuples of arrays
                    total = total + jnp.sum(leaf)
    finally:
        replay.A = old_A
        replay.bindings_cond.A = old_A
    return total


def jit_grad_check(beh, h=1e-6):
    f = lambda t: run_traced(beh, t)
    v_eager = float(f(0.0))
    v_jit = float(jax.jit(f)(0.0))
    if not math.isfinite(v_eager) or abs(v_eager - v_jit) > 1e-8 * max(1.0, abs(v_eager)):
        raise Mismatch("program.jit", v_jit, v_eager, "jit(whole program) differs from eager")
    g = float(jax.grad(f)(0.0))
    fd = (float(f(h)) - float(f(-h))) / (2 * h)
    if not math.isfinite(g) or abs(g - fd) > 1e-5 * max(1.0, abs(fd)):
        raise Mismatch("program.grad", g, fd, "reverse-mode gradient differs from central differences")
    return v_eager, g


def kalman_scan(beh):
    """beh: an MC_C11 'kalman' behaviour. Steps: 0 p0, 1 transition, 2 observation, then 5 steps per time index."""
    rp = replay.Replayer()
    for st in beh[:3]:
        new, _ = replay.BINDINGS[st["act"]](rp, st)
        rp.heap[st["id"]] = new
    p0, trans, obs = rp.heap[1], rp.heap[2], rp.heap[3]
    T = (len(beh) - 3) // 5
    ys = jnp.stack([replay.stack_q(beh[3 + 5 * t + 2]["a"]["x"])[0] for t in range(T)])       # [T, Dy]

    def step(carry, y):
        filt, ev = carry
        pred = trans.affine_marginal_transformation(filt)
        py = obs.affine_marginal_transformation(pred)
        ev = ev + py.evaluate_ln(y[None])[0, 0]
        post = obs.affine_conditional_transformation(pred)
        filt = post.condition_on_x(y[None])
        return (filt, ev), filt.mu[0]

    (filt, ev), means = jax.lax.scan(step, (p0, jnp.zeros(())), ys)
    last = beh[-1]["o"]
    cmp_lin("scan.filter.mu", np.asarray(filt.mu), to_float(last["mu"]))
    cmp_lin("scan.filter.Sigma", np.asarray(filt.Sigma), to_float(last["Sig"]))
    ev_exp = sum(float(beh[3 + 5 * t + 2]["ret"]["ln"][0][0]) for t in range(T))
    cmp_lin("scan.evidence", np.asarray(ev), ev_exp)
    for t in range(T):
        cmp_lin("scan.filter_means", np.asarray(means[t]), to_float(beh[3 + 5 * t + 4]["o"]["mu"][0]))
    return T


def vmap_checks(beh):
    """Replays eagerly; at evaluation / set_y / condition_on_x steps additionally runs the call vmapped over the data axis."""
    rp = replay.Replayer()
    n = 0
    for st in beh:
        if st["a"].get("raises"):
            continue
        a = st["a"]
        if st["act"] in ("Evaluate", "EvaluateQ") and not a["elementwise"]:
            o = rp.heap[a["i"]]
            x = replay.A(a["x"]) if st["act"] == "Evaluate" else replay.stack_q(a["x"])
            val = jax.vmap(lambda xi: o.evaluate_ln(xi[None])[:, 0])(x)          # [N, R]
            cmp_lin("vmap.evaluate_ln", np.asarray(val).T, to_float(st["ret"]["ln"]))
            n += 1
        if st["act"] == "SetY" and int(rp.heap[a["i"]].R) == 1:
            c = rp.heap[a["i"]]
            Y = replay.stack_q(a["y"])
            def fy(yi):
                f = c.set_y(yi[None])
                return f.nu[0], f.Lambda[0], f.ln_beta[0]
            nu, Lam, lnb = jax.vmap(fy)(Y)                                        # arrays with leading axis N
            exp = st["o"]
            cmp_lin("vmap.set_y.nu", np.asarray(nu), to_float(exp["nu"]))
            cmp_lin("vmap.set_y.Lambda", np.asarray(Lam), to_float(exp["Lam"]))
            cmp_lin("vmap.set_y.ln_beta", np.asarray(lnb), to_float(exp["lnb"]))
            n += 1
        if st["act"] == "CondOnX" and int(rp.heap[a["i"]].R) == 1:
            c = rp.heap[a["i"]]
            X = replay.stack_q(a["x"])
            def fx(xi):
                p = c.condition_on_x(xi[None])
                return p.mu[0], p.Sigma[0], p.ln_beta[0]
            mu, Sig, lnb = jax.vmap(fx)(X)
            exp = st["o"]
            cmp_lin("vmap.condition_on_x.mu", np.asarray(mu), to_float(exp["mu"]))
            cmp_lin("vmap.condition_on_x.Sigma", np.asarray(Sig), to_float(exp["Sig"]))
            cmp_lin("vmap.condition_on_x.ln_beta", np.asarray(lnb), to_float(exp["lnb"]))
            n += 1
        fn = replay.BINDINGS[st["act"]]
        new, ret = fn(rp, st)
        if st["id"]:
            rp.heap[st["id"]] = new
            rp.expect[st["id"]] = st["o"]
            rp.flags[st["id"]] = {}
    return n
