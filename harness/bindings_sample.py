"""Bindings for sampling (C19)."""
from __future__ import annotations

import numpy as np
import jax
from jax import numpy as jnp

from .decode import to_float
from .replay import Mismatch, binding, cmp_lin


class _PatchedNormal:
    """Replaces jax.random.normal inside gaussian_toolbox.pdf for one call: returns a given stream."""

    def __init__(self, stream, key):
        self.stream, self.key, self.calls = stream, key, []

    def __call__(self, key, shape=(), dtype=float):
        self.calls.append((key, tuple(shape)))
        return jnp.asarray(self.stream, dtype=float)


@binding("Sample")
def _sample(rp, st):
    a = st["a"]
    p = rp.heap[a["i"]]
    n = int(a["n"])
    R, D = int(p.R), int(p.D)
    exp = st["ret"]
    L = np.asarray(to_float(exp["L"]), dtype=float)
    mu = np.asarray(to_float(exp["mu"]), dtype=float)
    if a["mode"] == "stream":
        z = np.asarray(a["z"], dtype=float)
        key = jax.random.PRNGKey(123)
        patched = _PatchedNormal(z, key)
        orig = jax.random.normal
        jax.random.normal = patched
        try:
            x = np.asarray(p.sample(key, n))
        finally:
            jax.random.normal = orig

        def chk(_val, _exp):
            if len(patched.calls) != 1:
                raise Mismatch("sample.calls", len(patched.calls), 1, "jax.random.normal must be called exactly once")
            k, shape = patched.calls[0]
            if shape != (n, R, D):
                raise Mismatch("sample.stream_shape", list(shape), [n, R, D], "shape of the requested normal stream")
            if not np.array_equal(np.asarray(k), np.asarray(key)):
                raise Mismatch("sample.key", np.asarray(k).tolist(), np.asarray(key).tolist(), "stream not drawn with the caller's key")
            cmp_lin("return", x, to_float(_exp["x"]))
        return None, ("custom", None, chk)

    key = jax.random.PRNGKey(int(a["seed"]))
    x1 = np.asarray(p.sample(key, n))
    x2 = np.asarray(p.sample(key, n))
    z = np.asarray(jax.random.normal(key, (n, R, D)))

    def chk2(_val, _exp):
        if x1.shape != (n, R, D):
            raise Mismatch("return", list(x1.shape), [n, R, D], "shape")
        if not np.array_equal(x1, x2):
            raise Mismatch("sample.reproducible", "differs", "identical", "two calls with the same key differ")
        if a["mode"] == "key":
            e = mu[None] + np.einsum("rbc,src->srb", L, z)
            cmp_lin("return", x1, e)
        else:
            # auxiliary statistical sanity (6 standard errors); the deciding check is the structural one above
            Sig = np.einsum("rab,rcb->rac", L, L)
            m = x1.mean(axis=0)
            se = np.sqrt(np.einsum("raa->ra", Sig) / n)
            if np.any(np.abs(m - mu) > 6 * se):
                raise Mismatch("sample.mean", m.tolist(), mu.tolist(), "empirical mean off by more than 6 standard errors")
            xc = x1 - mu[None]
            C = np.einsum("sra,srb->rab", xc, xc) / n
            var = np.einsum("raa->ra", Sig)
            se_c = np.sqrt((var[:, :, None] * var[:, None, :] + Sig ** 2) / n)
            if np.any(np.abs(C - Sig) > 6 * se_c):
                raise Mismatch("sample.cov", C.tolist(), Sig.tolist(), "empirical covariance off by more than 6 standard errors")
            if R > 1:
                cross = np.einsum("sa,sb->ab", xc[:, 0], xc[:, 1]) / n
                se_x = np.sqrt(var[0][:, None] * var[1][None, :] / n)
                if np.any(np.abs(cross) > 6 * se_x):
                    raise Mismatch("sample.cross", cross.tolist(), 0, "components 0 and 1 are correlated")
    return None, ("custom", None, chk2)
