"""Bindings for densities (pdf.py) and linear-Gaussian conditionals (conditional.py)."""
from __future__ import annotations

import numpy as np
from jax import numpy as jnp

from gaussian_toolbox import conditional, pdf

from .decode import qarr, to_float
from .replay import A, Mismatch, binding, cmp_lin, lnf, stack_q, _opt

COND_CLASSES = {
    "Cond": conditional.ConditionalGaussianPDF,
    "CondDiag": conditional.ConditionalGaussianDiagPDF,
    "CondId": conditional.ConditionalIdentityGaussianPDF,
    "CondIdDiag": conditional.ConditionalIdentityDiagGaussianPDF,
}


def check_conditional(obj, exp, where):
    Sig = to_float(exp["Sig"])
    R, Dy = len(Sig), len(Sig[0])
    M = to_float(exp["M"])
    Dx = len(M[0][0])
    if not isinstance(obj, conditional.ConditionalGaussianPDF):
        raise Mismatch(where + ".class", type(obj).__name__, exp["cls"], "not a conditional")
    if int(obj.R) != R:
        raise Mismatch(where + ".R", int(obj.R), R, "number of components")
    if int(obj.Dy) != Dy:
        raise Mismatch(where + ".Dy", int(obj.Dy), Dy, "dimension of y")
    if int(obj.Dx) != Dx:
        raise Mismatch(where + ".Dx", int(obj.Dx), Dx, "dimension of x")
    is_id = isinstance(obj, conditional.ConditionalIdentityGaussianPDF)
    if not is_id:
        cmp_lin(where + ".M", _opt(obj, "M"), M)
        cmp_lin(where + ".b", _opt(obj, "b"), to_float(exp["b"]))
    else:
        # identity-mean classes denote M = I, b = 0; the expected record must say so
        cmp_lin(where + ".M(identity)", np.tile(np.eye(Dy)[None], (R, 1, 1)), M)
        cmp_lin(where + ".b(zero)", np.zeros((R, Dy)), to_float(exp["b"]))
    cmp_lin(where + ".Sigma", _opt(obj, "Sigma"), Sig)
    cmp_lin(where + ".Lambda", _opt(obj, "Lambda"), to_float(exp["Lam"]))
    cmp_lin(where + ".ln_det_Sigma", _opt(obj, "ln_det_Sigma"), [lnf(x) for x in exp["dSig"]])


def idx(a):
    return jnp.array(a, dtype=jnp.int32)


@binding("Marginal")
def _marginal(rp, st):
    return rp.heap[st["a"]["i"]].get_marginal(idx(st["a"]["dims"])), None


@binding("LinearSum")
def _linear_sum(rp, st):
    a = st["a"]
    p = rp.heap[a["i"]]
    W = stack_q(a["W"])
    if a["bmode"] == "none":
        return p.get_density_of_linear_sum(W), None
    return p.get_density_of_linear_sum(W, stack_q(a["b"])), None


@binding("Entropy")
def _entropy(rp, st):
    return None, ("ln", rp.heap[st["a"]["i"]].entropy())


@binding("KL")
def _kl(rp, st):
    a = st["a"]
    val = rp.heap[a["i"]].kl_divergence(rp.heap[a["j"]])

    def chk(val, exp):
        val = np.asarray(val)
        cmp_lin("return", val, to_float(exp["ln"]))
        # sign clause of C13: KL >= 0 (decided on the exact value, reported against the code's value)
        if np.any(val < -1e-9):
            raise Mismatch("return.sign", val.tolist(), ">= 0", "negative KL divergence")
    return None, ("custom", val, chk)


@binding("Update")
def _update(rp, st):
    a = st["a"]
    rp.heap[a["i"]].update(idx(a["idx"]), rp.heap[a["j"]])
    return None, None


@binding("ConditionOn")
def _condition_on(rp, st):
    a = st["a"]
    return rp.heap[a["i"]].condition_on(idx(a["dy"])), None


@binding("ConditionOnExplicit")
def _condition_on_explicit(rp, st):
    a = st["a"]
    return rp.heap[a["i"]].condition_on_explicit(idx(a["dy"]), idx(a["dx"])), None


@binding("NewCond")
def _new_cond(rp, st):
    a, f = st["a"], st["f"]
    cls = COND_CLASSES[a["cls"]]
    kw = {}
    is_id = a["cls"] in ("CondId", "CondIdDiag")
    if not is_id:
        kw["M"] = stack_q(a["M"])
        if a["bmode"] == "given":
            kw["b"] = stack_q(a["b"])
    mat = stack_q(a["Mat"])
    if a["mode"] == "S":
        kw["Sigma"] = mat
    elif a["mode"] == "L":
        kw["Lambda"] = mat
    else:
        kw["Sigma"] = mat
        kw["Lambda"] = A(to_float(f["Lambda"]))
        kw["ln_det_Sigma"] = A([lnf(x) for x in f["dSig"]])
    return cls(**kw), None


@binding("CondOnX")
def _cond_on_x(rp, st):
    a = st["a"]
    c = rp.heap[a["i"]]
    x = stack_q(a["x"])

    def chk(val, exp):
        # get_conditional_mu(x)[r, n] is the mean of component r*N+n of condition_on_x(x)
        want = np.asarray(to_float(st["o"]["mu"]))
        cmp_lin("get_conditional_mu", np.asarray(val).reshape(want.shape), want)

    mu = c.get_conditional_mu(x)
    if a["via"] == "call":
        return c(x), ("custom", mu, chk)
    return c.condition_on_x(x), ("custom", mu, chk)


@binding("SetY")
def _set_y(rp, st):
    a = st["a"]
    return rp.heap[a["i"]].set_y(stack_q(a["y"])), None


@binding("Transform")
def _transform(rp, st):
    a = st["a"]
    c, p = rp.heap[a["i"]], rp.heap[a["j"]]
    fn = getattr(c, f"affine_{a['kind']}_transformation")
    return fn(p), None


@binding("IntLogCond")
def _int_log_cond(rp, st):
    a = st["a"]
    return None, ("ln", rp.heap[a["i"]].integrate_log_conditional(rp.heap[a["j"]]))


@binding("IntLogCondY")
def _int_log_cond_y(rp, st):
    a = st["a"]
    c, p = rp.heap[a["i"]], rp.heap[a["j"]]
    y = stack_q(a["y"])
    if a["via"] == "callable":
        return None, ("ln", c.integrate_log_conditional_y(p)(y))
    return None, ("ln", c.integrate_log_conditional_y(p, y=y))


@binding("IntLogCondYDefer")
def _int_log_cond_y_defer(rp, st):
    a = st["a"]
    return rp.heap[a["i"]].integrate_log_conditional_y(rp.heap[a["j"]]), None      # the callable is kept on the heap


@binding("ApplyClosure")
def _apply_closure(rp, st):
    a = st["a"]
    return None, ("ln", rp.heap[a["i"]](stack_q(a["y"])))


@binding("Info")
def _info(rp, st):
    a = st["a"]
    c, p = rp.heap[a["i"]], rp.heap[a["j"]]
    val = getattr(c, a["kind"])(p)

    def chk(val, exp):
        val = np.asarray(val)
        cmp_lin("return", val, to_float(exp["ln"]))
        if a["kind"] == "mutual_information" and np.any(val < -1e-9):
            raise Mismatch("return.sign", val.tolist(), ">= 0", "negative mutual information")
    return None, ("custom", val, chk)


@binding("UpdateSigma")
def _update_sigma(rp, st):
    a = st["a"]
    rp.heap[a["i"]].update_Sigma(stack_q(a["Sigma"]))
    return None, None


# ---------------------------------------------------------------------------------------------
# polynomial integrals
# ---------------------------------------------------------------------------------------------
def _int_array(x):
    return jnp.asarray(np.array(x, dtype=np.int64))


def _coef_kwargs(cs, mat_name, vec_name, int_mats=False):
    """int_mats: coefficient matrices whose menu entries are integers are handed over as INTEGER-dtype arrays (a selection
    matrix written with integer literals); the vectors stay float."""
    kw = {}
    as_int = int_mats and cs["mm"] != "none" and all(c["d"] == 1 for c in cs["mat"])
    if cs["mm"] == "shared":
        kw[mat_name] = _int_array(cs["mat"][0]["n"]) if as_int else A(qarr(cs["mat"][0]))
    elif cs["mm"] == "per":
        kw[mat_name] = _int_array([c["n"] for c in cs["mat"]]) if as_int else stack_q(cs["mat"])
    if cs["vm"] == "shared":
        kw[vec_name] = A(qarr(cs["vec"][0]))
    elif cs["vm"] == "per":
        kw[vec_name] = stack_q(cs["vec"])
    return kw


def _all_integer(cs_list):
    return all(c["d"] == 1 for cs in cs_list for fld in ("mat", "vec") for c in cs[fld])


@binding("Integrate")
def _integrate(rp, st):
    a = st["a"]
    o = rp.heap[a["i"]]
    key = a["key"]
    kw = {}
    if key == "xb'xx'":
        cs = a["B"]
        kw["b_vec"] = A(qarr(cs["mat"][0]))[0] if cs["mm"] == "shared" else stack_q(cs["mat"])[:, 0]
    else:
        for nm, cs in (("A", a["A"]), ("B", a["B"]), ("C", a["C"]), ("D", a["D"])):
            kw.update(_coef_kwargs(cs, f"{nm}_mat", f"{nm.lower()}_vec"))
    val = o.integrate(key, **kw)
    # the same integral with integer-valued coefficient matrices passed as integer-dtype arrays (real coefficients may be
    # written as integer literals, e.g. selection matrices; the result must not depend on the dtype of the container)
    val_int = None
    if key != "xb'xx'":
        kwi = {}
        for nm, cs in (("A", a["A"]), ("B", a["B"]), ("C", a["C"]), ("D", a["D"])):
            kwi.update(_coef_kwargs(cs, f"{nm}_mat", f"{nm.lower()}_vec", int_mats=True))
        if any(jnp.issubdtype(v.dtype, jnp.integer) for v in kwi.values()):
            val_int = o.integrate(key, **kwi)
    exact = bool(rp.flags.get(a["i"], {}).get("exact")) and _all_integer([a["A"], a["B"], a["C"], a["D"]]) \
        and rp.mode == "eager"

    def chk(val, exp):
        val, vi = val
        val = np.asarray(val)
        mass = np.exp(np.asarray(to_float(exp["ln"]), dtype=float))
        c = np.asarray(to_float(exp["c"]), dtype=float)
        e = mass.reshape((-1,) + (1,) * (c.ndim - 1)) * c
        cmp_lin("return", val, e)
        if vi is not None:
            rp.count("integer_dtype_coefficient_calls")
            cmp_lin("return[integer-dtype matrices]", np.asarray(vi), e)
        if exact:
            rp.count("exact_mode_bit_exact_comparisons")
        if exact and not np.array_equal(val, e):
            raise Mismatch("return.exact", val.tolist(), e.tolist(), "exact mode: integer inputs, result not bit-exact")
    return None, ("custom", (val, val_int), chk)


@binding("IntegrateLogFactor")
def _integrate_log_factor(rp, st):
    a = st["a"]
    val = rp.heap[a["i"]].integrate("log u(x)", factor=rp.heap[a["j"]])

    def chk(val, exp):
        val = np.asarray(val)
        mass = np.exp(np.asarray(to_float(exp["ln"]), dtype=float))
        e = mass * (np.asarray(to_float(exp["c"]), dtype=float) + np.asarray(to_float(exp["lnc"]), dtype=float))
        cmp_lin("return", val, e)
    return None, ("custom", val, chk)


# ---------------------------------------------------------------------------------------------
# NN-controlled conditional with an affine control function (exact rational weights)
# ---------------------------------------------------------------------------------------------
@binding("NewNN")
def _new_nn(rp, st):
    a = st["a"]
    Wc = A(qarr(a["Wc"]))
    w0c = A(qarr(a["w0c"]))

    def control_func(u):
        return u @ Wc + w0c[None]
    return conditional.NNControlGaussianConditional(Sigma=A([qarr(a["Sigma"])]), num_cond_dim=int(a["Dx"]),
                                                    num_control_dim=int(a["Du"]), control_func=control_func), None


@binding("SetControl")
def _set_control(rp, st):
    a = st["a"]
    return rp.heap[a["i"]].set_control_variable(stack_q(a["u"])), None


@binding("NNOp")
def _nn_op(rp, st):
    a = st["a"]
    c = rp.heap[a["i"]]
    u = stack_q(a["u"])
    op = a["op"]
    p = rp.heap.get(a["j"]) if a["j"] else None
    if op in ("joint", "marginal", "conditional"):
        return getattr(c, f"affine_{op}_transformation")(p, u=u), None
    if op == "set_y":
        return c.set_y(stack_q(a["pts"]), u=u), None
    if op == "cond_on_x":
        x = stack_q(a["pts"])
        return (c(x, u) if len(a["pts"]) == 1 else c.condition_on_x_u(x, u)), None
    if op in ("conditional_entropy", "mutual_information"):
        val = getattr(c, op)(p, u=u)

        def chk(val, exp):
            val = np.asarray(val)
            cmp_lin("return", val, to_float(exp["ln"]))
            if op == "mutual_information" and np.any(val < -1e-9):
                raise Mismatch("return.sign", val.tolist(), ">= 0", "negative mutual information")
        return None, ("custom", val, chk)
    if op == "int_log_cond":
        return None, ("ln", c.integrate_log_conditional(p, u=u))
    if op == "int_log_cond_y":
        return None, ("ln", c.integrate_log_conditional_y(p, u=u, y=stack_q(a["pts"])))
    raise KeyError(op)
