"""Run one TLA+ model instance under TLC for K primes in parallel and collect the exported behaviours.

Each TLC process checks the same model (same invariants, same state graph) over GF(p) for its own
prime p and prints one JSON line per complete behaviour (GT!Export).  A TLC error of any kind -
an invariant of the SPECIFICATION violated, a parse/evaluation error, a timeout - is a machinery
failure (exit code 2 of the check), never a property violation of the code.
"""
from __future__ import annotations

import json
import os
import re
import shutil
import subprocess
import tempfile
import time
from concurrent.futures import ThreadPoolExecutor

from . import decode

SPEC_DIR = os.path.join(os.path.dirname(os.path.dirname(os.path.abspath(__file__))), "spec")
JAR = "/opt/veriftools/tla/tla2tools.jar:/opt/veriftools/tla/CommunityModules-deps.jar"


class TlcError(Exception):
    pass


def scratch_dir(prefix="gtverif_"):
    base = os.environ.get("VERIF_SCRATCH") or tempfile.gettempdir()
    return tempfile.mkdtemp(prefix=prefix, dir=base)


_SUMMARY = re.compile(r"(\d+) states generated, (\d+) distinct states found, (\d+) states left on queue")


def _run_one(workdir, module, cfg_text, prime, timeout, simulate=None, workers=1, heap="2g", extra_consts=None, extra_env=None):
    cfg_name = f"{module}_{prime}.cfg"
    txt = re.sub(r"(?m)^(\s*P\s*=\s*)\d+", lambda m: m.group(1) + str(prime), cfg_text)
    for k, v in (extra_consts or {}).items():
        txt = re.sub(r"(?m)^(\s*" + re.escape(k) + r"\s*=\s*).*$", lambda m: m.group(1) + str(v), txt)
    with open(os.path.join(workdir, cfg_name), "w") as f:
        f.write(txt)
    meta = os.path.join(workdir, f"meta_{prime}")
    cmd = ["java", "-XX:+UseParallelGC", "-Djava.io.tmpdir=" + workdir, "-Xss512m", f"-Xmx{heap}", f"-Xms{heap}", "-cp", JAR, "tlc2.TLC",
           "-workers", str(workers), "-metadir", meta, "-noGenerateSpecTE", "-config", cfg_name]
    if simulate:
        cmd += ["-simulate", simulate["spec"], "-depth", str(simulate["depth"]), "-seed", str(simulate["seed"])]
    cmd += [module + ".tla"]
    out_path = os.path.join(workdir, f"out_{prime}.txt")
    t0 = time.time()
    env = dict(os.environ)
    env.pop("JAVA_TOOL_OPTIONS", None)
    env.update(extra_env or {})
    with open(out_path, "w") as out:
        proc = subprocess.Popen(cmd, cwd=workdir, stdout=out, stderr=subprocess.STDOUT, env=env)
        # Poll instead of a plain wait: after an evaluation error TLC can spend tens of minutes formatting a huge
        # message; once an "Error:" line is on disk the verdict is known, so give it a short grace period and kill it.
        pos, err_seen_at = 0, None
        while True:
            try:
                rc = proc.wait(timeout=2.0)
                break
            except subprocess.TimeoutExpired:
                pass
            now = time.time()
            try:
                with open(out_path, "rb") as rf:
                    rf.seek(pos)
                    chunk = rf.read()
                    pos += len(chunk)
                if err_seen_at is None and (b"\nError:" in chunk or chunk.startswith(b"Error:")):
                    err_seen_at = now
            except OSError:
                pass
            if (err_seen_at is not None and now - err_seen_at > 20) or now - t0 > timeout:
                proc.kill()
                rc = proc.wait()
                if err_seen_at is None:
                    raise TlcError(f"TLC timed out after {timeout}s for prime {prime} ({module})")
                break
    wall = time.time() - t0
    behaviours = []
    states = distinct = None
    errors = []
    with open(out_path) as f:
        for line in f:
            if line.startswith('"'):
                try:
                    obj = json.loads(json.loads(line))
                    if isinstance(obj, dict) and "hist" in obj:      # trace validation: {"tid": .., "hist": [...]}
                        obj = [{"act": "Trace", "a": {"tid": obj["tid"]}, "id": 0, "mid": 0, "f": [], "o": [], "mo": [],
                                "ret": []}] + obj["hist"]
                    behaviours.append(obj)
                except Exception as e:  # pragma: no cover
                    errors.append(f"unparsable export line: {e}")
            elif line.startswith("Error:") or "Exception" in line and "at " not in line[:4]:
                errors.append(line.strip())
            else:
                m = _SUMMARY.search(line)
                if m:
                    states, distinct = int(m.group(1)), int(m.group(2))
    # In simulation mode TLC is stopped from inside the spec (TLCSet("exit", TRUE)); rc may be non-zero.
    if errors or (rc != 0 and not simulate):
        tail = ""
        try:
            with open(out_path) as f:
                lines = [l for l in f if not l.startswith('"')]
                tail = "".join(lines[-40:])
        except Exception:
            pass
        raise TlcError(f"TLC failed for prime {prime} ({module}), rc={rc}: {errors[:3]}\n{tail}")
    shutil.rmtree(meta, ignore_errors=True)
    return {"prime": prime, "behaviours": behaviours, "states": states, "distinct": distinct, "wall": wall}


def run_model(module: str, cfg_text: str, nprimes: int = 8, timeout: int = 1800, simulate=None,
              workers: int = 0, extra_consts=None, keep=False, extra_env=None):
    """Returns (merged_behaviours, stats). merged behaviour = list of steps; the plain part ("act", "a",
    "id", "mid") taken from the first prime, the field-coded parts ("f", "o", "mo", "ret") decoded exactly."""
    primes = tuple(decode.PRIMES[:nprimes])
    workdir = scratch_dir()
    try:
        for fn in os.listdir(SPEC_DIR):
            if fn.endswith(".tla"):
                shutil.copy(os.path.join(SPEC_DIR, fn), os.path.join(workdir, fn))
        ncpu = os.cpu_count() or 4
        if workers <= 0:      # share the cores between the per-prime processes
            workers = 1 if simulate else max(1, ncpu // len(primes))
        par = max(1, min(len(primes), ncpu // max(1, workers)))
        with ThreadPoolExecutor(max_workers=par) as ex:
            futs = [ex.submit(_run_one, workdir, module, cfg_text, p, timeout, simulate, workers, "2g", extra_consts, extra_env)
                    for p in primes]
            results = [f.result() for f in futs]
    finally:
        if not keep:
            shutil.rmtree(workdir, ignore_errors=True)
    # group behaviours by their plain key (actions + plain arguments): prime independent
    def key(beh):
        return json.dumps([[s["act"], s["a"]] for s in beh], sort_keys=True)
    tables = []
    for r in results:
        t = {}
        for b in r["behaviours"]:
            t[key(b)] = b
        tables.append(t)
    keys0 = list(tables[0].keys())
    for t in tables[1:]:
        if set(t.keys()) != set(keys0):
            raise TlcError(f"{module}: the per-prime runs exported different behaviour sets "
                           f"({len(keys0)} vs {len(t)})")
    merged = []
    for k in keys0:
        behs = [t[k] for t in tables]
        steps = []
        for si in range(len(behs[0])):
            s0 = behs[0][si]
            st = {"act": s0["act"], "a": s0["a"], "id": s0["id"], "mid": s0["mid"]}
            for fld in ("f", "o", "mo", "ret"):
                st[fld] = decode.merge([b[si][fld] for b in behs], primes)
            steps.append(st)
        merged.append(steps)
    stats = {"module": module, "primes": list(primes),
             "states": results[0]["states"], "distinct": results[0]["distinct"],
             "behaviours": len(merged), "tlc_wall_s": max(r["wall"] for r in results)}
    return merged, stats
