"""B1: replay behaviours exported by TLC into the real library and compare every observable.

The replayer keeps a dict heap-id -> live Python object, performs each step through the PUBLIC API
(one small binding per action) and compares
  * the object a step created or mutated          with the spec's expected record (step["o"] / step["mo"]),
  * the value a step returned                      with step["ret"],
  * every operand after the step                   with ITS expected record (operands unchanged, caches coherent),
  * every live object at the end of the behaviour  with its expected record.
Expected records hold TRUE values derived from the defining parameters (see GT!ExpectObj), so a cache
field is compared whenever the code object exposes it, whatever the spec predicted about cache population.
"""
from __future__ import annotations

import json
import math
import os
import sys
import traceback
from fractions import Fraction

import numpy as np

import jax

REPO = os.environ.get("VERIF_REPO", "/repo")
if REPO not in sys.path:
    sys.path.insert(0, REPO)

# Order as in the library's own tests and notebooks: the package is imported FIRST (under JAX's default 32-bit mode) and
# jax_enable_x64 is switched on afterwards.  Anything the package computes at import time (module-level constants) is
# therefore created exactly as a user gets it; with the opposite order a float32 constant frozen at import would be
# invisible to every check.  All harness modules import the library through this module.
from gaussian_toolbox import factor, measure, pdf, conditional  # noqa: E402
from gaussian_toolbox import approximate_conditional as _ac  # noqa: E402,F401
from gaussian_toolbox.experimental import truncated_measure as _tm0  # noqa: E402,F401

jax.config.update("jax_enable_x64", True)
from jax import numpy as jnp  # noqa: E402

from .decode import LNum, qarr, qval, to_float, to_jsonable  # noqa: E402

TOL = 1e-8


# ---------------------------------------------------------------------------------------------
# comparison
# ---------------------------------------------------------------------------------------------
class Mismatch(Exception):
    def __init__(self, field, observed, expected, note=""):
        super().__init__(f"{field}: {note}")
        self.field, self.observed, self.expected, self.note = field, observed, expected, note


def _arr(x):
    return np.asarray(x, dtype=float)


def cmp_lin(field, obs, exp, tol=TOL):
    """|obs-exp| <= tol * max(1, max|exp|) entry-wise; shapes must agree exactly."""
    e = _arr(exp)
    if obs is None:
        raise Mismatch(field, None, e.tolist(), "missing (None)")
    o = _arr(obs)
    if o.shape != e.shape:
        raise Mismatch(field, list(o.shape), list(e.shape), "shape")
    if e.size == 0:
        return
    scale = max(1.0, float(np.max(np.abs(e))))
    if not np.all(np.isfinite(o)) or float(np.max(np.abs(o - e))) > tol * scale:
        raise Mismatch(field, o.tolist(), e.tolist(), f"value (tol {tol:g} x {scale:g})")


def cmp_exp(field, obs, exp_ln, tol=TOL):
    """obs compared with exp(exp_ln), relative to the expected magnitude."""
    e = np.exp(_arr(exp_ln))
    if obs is None:
        raise Mismatch(field, None, e.tolist(), "missing (None)")
    o = _arr(obs)
    if o.shape != e.shape:
        raise Mismatch(field, list(o.shape), list(e.shape), "shape")
    if e.size == 0:
        return
    if not np.all(np.isfinite(o)) or np.any(np.abs(o - e) > tol * np.maximum(np.abs(e), 1e-300)):
        raise Mismatch(field, o.tolist(), e.tolist(), f"value (rel tol {tol:g})")


def lnf(x):
    """float of ln(x) for an exact positive Fraction."""
    if x <= 0:
        return float("nan")
    return math.log(x.numerator) - math.log(x.denominator)


# ---------------------------------------------------------------------------------------------
# observation of code objects
# ---------------------------------------------------------------------------------------------
def _opt(obj, name):
    v = getattr(obj, name, None)
    return None if v is None else np.asarray(v)


MEASURE_CLASSES = {
    "Measure": measure.GaussianMeasure, "DiagMeasure": measure.GaussianDiagMeasure,
    "PDF": pdf.GaussianPDF, "DiagPDF": pdf.GaussianDiagPDF,
}
FACTOR_CLASSES = {
    "Factor": factor.ConjugateFactor, "Rank1": factor.OneRankFactor,
    "Linear": factor.LinearFactor, "Const": factor.ConstantFactor,
}


def check_measure_family(obj, exp, where):
    """obj: code object of the factor/measure/density family; exp: decoded GT!ExpectObj record."""
    Lam = to_float(exp["Lam"])
    R = len(Lam)
    D = len(Lam[0])
    if int(obj.R) != R:
        raise Mismatch(where + ".R", int(obj.R), R, "number of components")
    if int(obj.D) != D:
        raise Mismatch(where + ".D", int(obj.D), D, "dimension")
    cmp_lin(where + ".Lambda", _opt(obj, "Lambda"), Lam)
    cmp_lin(where + ".nu", _opt(obj, "nu"), to_float(exp["nu"]))
    cmp_lin(where + ".ln_beta", _opt(obj, "ln_beta"), to_float(exp["lnb"]))
    if "v" in exp:
        cmp_lin(where + ".v", _opt(obj, "v"), to_float(exp["v"]))
        cmp_lin(where + ".g", _opt(obj, "g"), to_float(exp["g"]))
    if "Sig" not in exp:
        return
    is_pdf = exp["cls"] in ("PDF", "DiagPDF")
    # caches: compared whenever the code object exposes them; mandatory for densities
    Sig = _opt(obj, "Sigma")
    if Sig is not None or is_pdf:
        cmp_lin(where + ".Sigma", Sig, to_float(exp["Sig"]))
    lds = _opt(obj, "ln_det_Sigma")
    ld_exp = [lnf(x) for x in exp["dSig"]]
    if lds is not None or is_pdf:
        cmp_lin(where + ".ln_det_Sigma", lds, ld_exp)
    ldl = _opt(obj, "ln_det_Lambda")
    if ldl is not None:
        cmp_lin(where + ".ln_det_Lambda", ldl, [-x for x in ld_exp])
    mu = _opt(obj, "mu")
    if mu is not None or is_pdf:
        cmp_lin(where + ".mu", mu, to_float(exp["mu"]))
    lnZ = _opt(obj, "lnZ")
    if lnZ is not None or is_pdf:
        cmp_lin(where + ".lnZ", lnZ, to_float(exp["lnZ"]))


def check_object(obj, exp, where):
    cls = exp["cls"]
    if cls in MEASURE_CLASSES or cls in FACTOR_CLASSES:
        if cls in MEASURE_CLASSES and not isinstance(obj, measure.GaussianMeasure):
            raise Mismatch(where + ".class", type(obj).__name__, cls, "not a Gaussian measure")
        if cls in ("PDF", "DiagPDF") and not isinstance(obj, pdf.GaussianPDF):
            raise Mismatch(where + ".class", type(obj).__name__, cls, "not a density")
        check_measure_family(obj, exp, where)
    elif cls == "CondNN":
        from gaussian_toolbox import conditional as _c
        if not isinstance(obj, _c.NNControlGaussianConditional):
            raise Mismatch(where + ".class", type(obj).__name__, cls, "not an NN-controlled conditional")
        cmp_lin(where + ".Sigma", _opt(obj, "Sigma"), to_float(exp["Sig"]))
        cmp_lin(where + ".Lambda", _opt(obj, "Lambda"), to_float(exp["Lam"]))
        cmp_lin(where + ".ln_det_Sigma", _opt(obj, "ln_det_Sigma"), [lnf(x) for x in exp["dSig"]])
    elif cls == "ValPDF":
        from . import bindings_approx
        bindings_approx.check_valpdf(obj, exp, where)
    elif cls == "Closure":
        if not callable(obj):
            raise Mismatch(where + ".class", type(obj).__name__, "callable", "deferred form must return a function")
    elif cls in ("LRBF", "LSEM", "HetExp", "HetCosh", "HetStep", "HetRelu", "ApproxCond"):
        pass      # opaque to the specification's object comparison; exercised through their operations
    elif cls in ("Trunc", "TruncPDF"):
        from gaussian_toolbox.experimental import truncated_measure as _tm
        want = _tm.TruncatedGaussianPDF if cls == "TruncPDF" else _tm.TruncatedGaussianMeasure
        if not isinstance(obj, want):
            raise Mismatch(where + ".class", type(obj).__name__, cls, "not a truncated measure/density")
    else:
        from . import bindings_cond
        bindings_cond.check_conditional(obj, exp, where)


def describe(obj):
    d = {"cls": type(obj).__name__}
    for k in ("R", "D", "Dx", "Dy"):
        try:
            d[k] = int(getattr(obj, k))
        except Exception:
            pass
    return d


# ---------------------------------------------------------------------------------------------
# bindings: one function per action; returns (new_object | None, returned_value | None)
# ---------------------------------------------------------------------------------------------
# Container of the arrays handed to the library: jax arrays (default) or writable NumPy arrays (VERIF_CONTAINER=numpy,
# or a Replayer(container="numpy")).  With NumPy containers every array that was handed over is kept together with a
# private copy, and after each call the harness verifies that the library did not write into the caller's arrays.
_CONTAINER = [os.environ.get("VERIF_CONTAINER", "jax")]
_HANDED = [[]]          # the list of the Replayer whose step is being executed (behaviours are replayed interleaved)


def A(x):
    a = np.array(x, dtype=float)
    if _CONTAINER[0] == "numpy":
        _HANDED[0].append((a, a.copy()))
        return a
    return jnp.asarray(a)


def check_arguments_untouched():
    for a, c in _HANDED[0]:
        if not np.array_equal(a, c):
            raise Mismatch("argument.mutated", a.tolist(), c.tolist(), "the call wrote into an array owned by the caller")


def stack_q(qs):
    return A([qarr(q) for q in qs])


BINDINGS = {}


def binding(name):
    def deco(fn):
        BINDINGS[name] = fn
        return fn
    return deco


@binding("Nop")
def _nop(rp, st):
    return None, None


@binding("NewMeasure")
def _new_measure(rp, st):
    a = st["a"]
    cls = MEASURE_CLASSES[a["cls"]]
    kw = dict(Lambda=stack_q(a["Lambda"]), nu=stack_q(a["nu"]), ln_beta=stack_q(a["ln_beta"]))
    for k in a.get("omit", []):      # optional arguments left to their documented defaults
        del kw[k]
    return cls(**kw), None


@binding("NewPdf")
def _new_pdf(rp, st):
    a, f = st["a"], st["f"]
    cls = MEASURE_CLASSES[a["cls"]]
    kw = dict(Sigma=stack_q(a["Sigma"]), mu=stack_q(a["mu"]))
    if a["mode"] in ("SL", "SLD"):
        kw["Lambda"] = A(to_float(f["Lambda"]))
    if a["mode"] == "SLD":
        kw["ln_det_Sigma"] = A([lnf(x) for x in f["dSig"]])
    return cls(**kw), None


@binding("NewFactor")
def _new_factor(rp, st):
    a = st["a"]
    c = a["cls"]
    om = set(a.get("omit", []))      # optional arguments left to their documented defaults

    def kw(*names):
        return {k: stack_q(a["Lambda" if k == "Lambda" else k]) for k in names if k not in om}
    if c == "Factor":
        return factor.ConjugateFactor(**kw("Lambda", "nu", "ln_beta")), None
    if c == "Rank1":
        return factor.OneRankFactor(**kw("v", "g", "nu", "ln_beta")), None
    if c == "Linear":
        return factor.LinearFactor(**kw("nu", "ln_beta")), None
    if c == "Const":
        return factor.ConstantFactor(ln_beta=stack_q(a["ln_beta"]), num_dim=int(a["num_dim"])), None
    raise KeyError(c)


@binding("Query")
def _query(rp, st):
    o = rp.heap[st["a"]["i"]]
    q = st["a"]["q"]
    if q == "integrate1":
        return None, ("exp", o.integrate("1"))
    val = getattr(o, q)()
    return None, (("ln" if q.startswith("log") else "exp"), val)


@binding("Compute")
def _compute(rp, st):
    getattr(rp.heap[st["a"]["i"]], st["a"]["what"])()
    return None, None


@binding("Normalize")
def _normalize(rp, st):
    rp.heap[st["a"]["i"]].normalize()
    return None, None


@binding("GetDensity")
def _get_density(rp, st):
    return rp.heap[st["a"]["i"]].get_density(), None


@binding("Slice")
def _slice(rp, st):
    return rp.heap[st["a"]["i"]].slice(jnp.array(st["a"]["idx"], dtype=jnp.int32)), None


@binding("Product")
def _product(rp, st):
    return rp.heap[st["a"]["i"]].product(), None


@binding("Multiply")
def _multiply(rp, st):
    a = st["a"]
    u, f = rp.heap[a["i"]], rp.heap[a["j"]]
    if a["via"] == "mul":
        return u * f, None
    if not a["full"]:
        return u.multiply(f), None          # the documented default update_full=False, left to the signature
    return u.multiply(f, update_full=True), None


@binding("Hadamard")
def _hadamard(rp, st):
    a = st["a"]
    if not a["full"]:
        return rp.heap[a["i"]].hadamard(rp.heap[a["j"]]), None      # default update_full=False
    return rp.heap[a["i"]].hadamard(rp.heap[a["j"]], update_full=True), None


@binding("Evaluate")
def _evaluate(rp, st):
    a = st["a"]
    o = rp.heap[a["i"]]
    x = A(a["x"])
    ew = bool(a["elementwise"])
    if a["via"] == "evaluate_ln":
        X = np.asarray(a["x"], dtype=float)
        d = X.shape[1]
        if not ew and X.shape[0] == (d + 1) * (d + 2) // 2:
            # The points are the unisolvent lattice: the expected values there determine the expected log-quadratic
            # everywhere.  Evaluate the code additionally at generic points (negative, fractional, large) and compare with
            # the interpolated expectation, so that a deviation that is not itself log-quadratic (abs, clipping, truncation
            # to integers, a branch on the sign of x) cannot hide behind the non-negative integer lattice.
            G = np.array([[((-1) ** (k + j)) * (0.5 + 0.75 * k + 0.3 * j) for j in range(d)] for k in range(3)])
            val = o.evaluate_ln(x, ew)
            valG = o.evaluate_ln(jnp.asarray(G), ew)

            def mono(P):
                cols = [np.ones(len(P))] + [P[:, i] for i in range(d)] + [P[:, i] * P[:, j] for i in range(d) for j in range(i, d)]
                return np.stack(cols, axis=1)

            def chk(v, exp):
                v, vG = v
                e = np.asarray(to_float(exp["ln"]), dtype=float)            # [R, len(X)]
                cmp_lin("return", np.asarray(v), e)
                coef = np.linalg.solve(mono(X), e.T)                         # exact interpolation on the lattice
                cmp_lin("return[generic points]", np.asarray(vG), (mono(G) @ coef).T)
            return None, ("custom", (val, valG), chk)
        return None, ("ln", o.evaluate_ln(x, ew))
    if a["via"] == "evaluate":
        return None, ("exp", o.evaluate(x, ew))
    return None, ("exp", o(x, element_wise=ew))


@binding("EvaluateQ")
def _evaluate_q(rp, st):
    a = st["a"]
    o = rp.heap[a["i"]]
    x = stack_q(a["x"])
    ew = bool(a["elementwise"])
    if a["via"] == "evaluate_ln":
        return None, ("ln", o.evaluate_ln(x, ew))
    if a["via"] == "evaluate":
        return None, ("exp", o.evaluate(x, ew))
    return None, ("exp", o(x, element_wise=ew))


def compare_ret(st, ret):
    """ret: (kind, value) returned by the binding; st["ret"]: decoded expected record."""
    exp = st["ret"]
    if ret is None:
        if exp not in ([], None, {}):
            raise Mismatch("return", None, "expected a value", "binding returned nothing")
        return
    kind, val = ret[0], ret[1]
    if kind == "ln":
        cmp_lin("return", np.asarray(val), to_float(exp["ln"]))
    elif kind == "exp":
        cmp_exp("return", np.asarray(val), to_float(exp["ln"]))
    elif kind == "lin":
        cmp_lin("return", np.asarray(val), to_float(exp["v"]))
    elif kind == "custom":
        ret[2](val, exp)
    else:  # pragma: no cover
        raise KeyError(kind)


# ---------------------------------------------------------------------------------------------
# the replayer
# ---------------------------------------------------------------------------------------------
OPERAND_KEYS = ("i", "j", "k")


def make_flags(st):
    """Plain facts about a freshly created object that later steps' contexts (known-finding signatures) may need."""
    a = st["a"]
    fl = {"exact": bool(a.get("exact"))}
    if st["act"] == "NewHet":
        fl.update(Dy=len(a["M"]["n"]), Dx=len(a["M"]["n"][0]), Da=len(a["A"]["n"][0]), Dk=len(a["W"]["n"]))
    if st["act"] == "NewNN":
        fl.update(Dy=len(a["Sigma"]["n"]), Dx=int(a["Dx"]), Du=int(a["Du"]))
    if st["act"] == "NewFeat":
        fl.update(Dy=len(a["M"]["n"]), Dk=len(a["centres"]), Dx=len(a["centres"][0]["n"]))
    return fl


# steps that are never wrapped in jit: they patch globals / run python-side statistics / are no library call
NOJIT = {"Nop", "Sample", "NewNN", "IntLogCondYDefer", "ApplyClosure", "NewTrunc", "TruncIntegrate", "TruncCall", "TruncGetDensity", "TruncStat"}


SHARED_JIT_ACTS = {"NNOp", "SetControl"}


class Replayer:
    """mode: "eager" - plain calls;
             "jit"   - every step is executed as jax.jit(step)(operand objects): the operands enter the jitted
                       function as pytree arguments and the result / mutated operands / returned arrays leave it."""

    def __init__(self, mode="eager"):
        self.mode = mode
        self.heap = {}
        self.expect = {}
        self.flags = {}
        self.calls = 0
        self.counters = {}
        self.extra_ctx = {}
        self.jit_cache = {}

    def call(self, fn, st):
        if self.mode != "jit" or st["act"] in NOJIT:
            return fn(self, st)
        ids = [st["a"][k] for k in OPERAND_KEYS if isinstance(st["a"].get(k), int) and st["a"][k] in self.heap]
        ops = {i: self.heap[i] for i in ids}
        # One jitted function per (action, plain arguments): like user code that jits a function once and calls it with
        # many objects.  Steps of different behaviours with the same signature share the compiled function, so a stale
        # compilation-cache hit (equal treedefs for objects that differ in static data) shows up as a value mismatch.
        # (Sharing is limited to the calls that take an object with static callable data - the NN-controlled conditional:
        # sharing every step's function made jaxlib 0.11 crash with a segmentation fault in its dispatch cache when one
        # function was re-traced for many different pytree structures.)
        share = st["act"] in SHARED_JIT_ACTS
        key = json.dumps([st["act"], st["a"]], sort_keys=True) if share else None
        entry = self.jit_cache.get(key) if share else None
        if entry is None:
            box = {}

            def g(ops_in):
                saved = {i: self.heap[i] for i in ops_in}
                self.heap.update(ops_in)
                try:
                    new, ret = fn(self, st)
                    after = {i: self.heap[i] for i in ops_in}     # operands as left by the call (caches filled, mutated)
                finally:
                    self.heap.update(saved)
                val = None
                if ret is not None:
                    box["kind"] = ret[0]
                    box["chk"] = ret[2] if len(ret) > 2 else None
                    val = ret[1]
                return after, new, val

            entry = (jax.jit(g), box)
            if share and len(self.jit_cache) < 5000:
                self.jit_cache[key] = entry
        else:
            self.count("jit_function_reused")
        jg, box = entry
        after, new, val = jg(ops)
        self.count("jit_steps")
        self.heap.update(after)
        if "kind" not in box:
            return new, None
        if box["kind"] == "custom":
            return new, ("custom", val, box["chk"])
        return new, (box["kind"], val)

    def count(self, name, n=1):
        self.counters[name] = self.counters.get(name, 0) + n

    def context(self, st):
        """Plain facts about a step, used for known-finding signatures and coverage accounting."""
        ctx = {"act": st["act"]}
        for k, v in st["a"].items():
            if isinstance(v, (int, str, bool)):
                ctx[k] = v
        for key in OPERAND_KEYS:
            if key in st["a"] and st["a"][key] in self.expect:
                e = self.expect[st["a"][key]]
                ctx["cls_" + key] = e["cls"]
                for dim in ("Lam", "M"):
                    if dim in e:
                        ctx["R_" + key] = len(e[dim])
                        break
                if "Lam" in e:
                    ctx["D_" + key] = len(e["Lam"][0])
                if "M" in e:
                    ctx["Dy_" + key] = len(e["M"][0])
                    ctx["Dx_" + key] = len(e["M"][0][0])
                for fk, fv in self.flags.get(st["a"][key], {}).items():
                    if fk != "exact":
                        ctx[fk + "_" + key] = fv
        return ctx

    def run(self, behaviour):
        """Returns None if the behaviour conforms, else a dict describing the first mismatch."""
        g = self.run_iter(behaviour)
        while True:
            try:
                next(g)
            except StopIteration as stop:
                return stop.value

    def run_iter(self, behaviour):
        """Generator form of run(): yields after every step (so that two behaviours can be replayed INTERLEAVED by two
        Replayers in one process); the generator's return value is run()'s result."""
        self.heap, self.expect, self.flags = {}, {}, {}
        handed = []
        for si, st in enumerate(behaviour):
            if si:
                yield si
            _HANDED[0] = handed
            self.extra_ctx = {}
            ctx = self.context(st)
            try:
                fn = BINDINGS[st["act"]]
                exp_raise = st["a"].get("raises")
                try:
                    new, ret = self.call(fn, st)
                    self.calls += 1
                except Mismatch:
                    raise
                except Exception as e:
                    self.calls += 1
                    if exp_raise and type(e).__name__ == exp_raise:
                        continue  # the documented refusal
                    if _CONTAINER[0] == "numpy":
                        # The library is typed for jax arrays; an operation that does not accept objects built from NumPy
                        # arrays (e.g. update() needs `.at`) is outside the properties.  The behaviour ends here; what was
                        # observed up to this step (values, untouched arguments) has been checked.
                        self.count("numpy_container_unsupported_call")
                        return None
                    # the code raised where the specification defines a result
                    raise Mismatch("raises", f"{type(e).__name__}: {e}"[:400], exp_raise or "no exception",
                                   "exception in a call the specification enables")
                if exp_raise:
                    raise Mismatch("raises", "no exception", exp_raise, "documented refusal did not happen")
                if st["id"]:
                    if new is None:
                        raise Mismatch("result", None, "object", "call returned no object")
                    for oid, other in self.heap.items():
                        if other is new:      # objects are mutable (normalize, update, cache fills): a result that IS one of
                            # the live objects makes every later in-place operation on either act on both
                            raise Mismatch("result.alias", f"the returned object is heap object {oid}", "a new object",
                                           "the call returned one of its operands instead of a new object")
                    self.heap[st["id"]] = new
                    self.expect[st["id"]] = st["o"]
                    self.flags[st["id"]] = make_flags(st)
                    check_object(new, st["o"], "result")
                if st["mid"]:
                    self.expect[st["mid"]] = st["mo"]
                    check_object(self.heap[st["mid"]], st["mo"], "mutated")
                compare_ret(st, ret)
                check_arguments_untouched()
                for key in OPERAND_KEYS:
                    oid = st["a"].get(key)
                    if isinstance(oid, int) and oid in self.heap:
                        check_object(self.heap[oid], self.expect[oid], f"operand[{key}]")
            except Mismatch as m:
                ctx.update(self.extra_ctx)
                return {"step": si, "act": st["act"], "field": m.field, "note": m.note,
                        "observed": to_jsonable(m.observed), "expected": to_jsonable(m.expected), "ctx": ctx}
        # final sweep: every live object still matches its expected record
        for oid, obj in self.heap.items():
            try:
                check_object(obj, self.expect[oid], f"final[{oid}]")
            except Mismatch as m:
                return {"step": len(behaviour), "act": "FinalSweep", "field": m.field, "note": m.note,
                        "observed": to_jsonable(m.observed), "expected": to_jsonable(m.expected),
                        "ctx": {"act": "FinalSweep", "cls_i": self.expect[oid]["cls"]}}
        # C18 round trips (jit mode only): every live object, in whatever cache state the behaviour left it, is
        # rebuilt (a) from its own to_dict() and (b) from its flattened pytree, and the rebuilt object must still
        # match the specification's record of that object.
        if self.mode == "jit":
            for oid, obj in self.heap.items():
                exp = self.expect[oid]
                for what in ("dict", "pytree"):
                    try:
                        if what == "dict":
                            if not (hasattr(obj, "to_dict") and hasattr(type(obj), "from_dict")):
                                continue
                            rebuilt = type(obj).from_dict(obj.to_dict())
                        else:
                            leaves, treedef = jax.tree_util.tree_flatten(obj)
                            rebuilt = jax.tree_util.tree_unflatten(treedef, leaves)
                        self.count("roundtrip_" + what)
                        check_object(rebuilt, exp, f"{what}_roundtrip[{oid}]")
                    except Mismatch as m:
                        return {"step": len(behaviour), "act": "RoundTrip", "field": m.field, "note": m.note,
                                "observed": to_jsonable(m.observed), "expected": to_jsonable(m.expected),
                                "ctx": {"act": "RoundTrip", "what": what, "cls_i": exp["cls"]}}
                    except Exception as e:
                        return {"step": len(behaviour), "act": "RoundTrip", "field": f"{what}_roundtrip.raises",
                                "note": f"{type(e).__name__}: {e}"[:300], "observed": "exception", "expected": "equivalent object",
                                "ctx": {"act": "RoundTrip", "what": what, "cls_i": exp["cls"]}}
        return None


from . import bindings_cond, bindings_trunc, bindings_sample, bindings_approx  # noqa: E402,F401  (register the remaining bindings)
