"""B2 driver: random sessions of public calls on the REAL library with exact rational inputs.

Every call is recorded as one event (operation, 1-based ids of the operand objects, exact arguments as
{"n": integers, "d": denominator} records) together with what the code returned (snapshots of created / mutated
objects, returned arrays, raised exceptions).  The events go to TLC (spec/Trace.tla), which re-executes them with the
actions of the session machine and returns the exact expected observables; harness/b2.py compares.
The driver is seeded (VERIF_SEED) and deterministic.
"""
from __future__ import annotations

import random
from fractions import Fraction
from math import lcm

import numpy as np
import jax

from . import replay  # noqa: E402  (sets sys.path to the repo under test, imports the library, THEN enables x64)
from jax import numpy as jnp  # noqa: E402
from gaussian_toolbox import conditional, factor, measure, pdf  # noqa: E402


# ---------------------------------------------------------------------------------------------
# exact random inputs
# ---------------------------------------------------------------------------------------------
def qrec(arr):
    """nested lists of Fractions -> {"n": nested ints, "d": common denominator}."""
    flat = []

    def walk(x):
        if isinstance(x, list):
            for v in x:
                walk(v)
        else:
            flat.append(Fraction(x))
    walk(arr)
    d = 1
    for f in flat:
        d = lcm(d, f.denominator)

    def conv(x):
        if isinstance(x, list):
            return [conv(v) for v in x]
        return int(Fraction(x) * d)
    return {"n": conv(arr), "d": d}


def qfloat(q):
    return np.array(q["n"], dtype=float) / q["d"]


def rand_spd(rng, D, diag=False):
    """L diag(d) L' with unit lower-triangular L: symmetric positive definite, small rationals, cond < ~1e2."""
    dvals = [Fraction(1), Fraction(2), Fraction(1, 2), Fraction(3), Fraction(3, 2)]
    d = [rng.choice(dvals) for _ in range(D)]
    L = [[Fraction(0)] * D for _ in range(D)]
    for i in range(D):
        L[i][i] = Fraction(1)
        if not diag:
            for j in range(i):
                L[i][j] = Fraction(rng.choice([-1, 0, 1, 1, 2]), rng.choice([1, 2]))
    return [[sum(L[i][k] * d[k] * L[j][k] for k in range(D)) for j in range(D)] for i in range(D)]


def rand_vec(rng, D):
    return [Fraction(rng.choice([-2, -1, 0, 1, 2, 3]), rng.choice([1, 2])) for _ in range(D)]


def rand_mat(rng, K, D):
    return [[Fraction(rng.choice([-2, -1, 0, 1, 2]), rng.choice([1, 2])) for _ in range(D)] for _ in range(K)]


def stack(qs):
    return jnp.asarray(np.stack([qfloat(q) for q in qs]))


# ---------------------------------------------------------------------------------------------
# snapshots of code objects
# ---------------------------------------------------------------------------------------------
class Snap:
    """Attribute view of what the code exposed at the moment of observation."""

    def __init__(self, obj):
        self.cls_name = type(obj).__name__
        self.is_measure = isinstance(obj, measure.GaussianMeasure)
        self.is_pdf = isinstance(obj, pdf.GaussianPDF)
        self.is_cond = isinstance(obj, conditional.ConditionalGaussianPDF)
        self.is_id_cond = isinstance(obj, conditional.ConditionalIdentityGaussianPDF)
        for k in ("R", "D", "Dx", "Dy"):
            try:
                setattr(self, k, int(getattr(obj, k)))
            except Exception:
                pass
        for k in ("Lambda", "nu", "ln_beta", "Sigma", "ln_det_Sigma", "ln_det_Lambda", "mu", "lnZ", "M", "b", "v", "g"):
            v = getattr(obj, k, None)
            setattr(self, k, None if v is None or callable(v) else np.asarray(v))


# ---------------------------------------------------------------------------------------------
# one random session
# ---------------------------------------------------------------------------------------------
class Session:
    def __init__(self, rng, family, length, max_r=6):
        self.rng, self.family, self.length, self.max_r = rng, family, length, max_r
        self.objs = []          # live code objects, 1-based ids = index + 1
        self.kinds = []         # "measure" | "pdf" | "factor" | "cond"
        self.events = []
        self.obs = []           # per event: {"new": Snap|None, "mut": Snap|None, "ret": ndarray|None, "exc": str|None}
        self.D = rng.choice([1, 2, 2, 3])

    # -- helpers
    def add(self, obj, kind):
        self.objs.append(obj)
        self.kinds.append(kind)
        return len(self.objs)

    def ids(self, *kinds):
        return [i + 1 for i, k in enumerate(self.kinds) if k in kinds]

    def record(self, ev, new=None, mut=None, ret=None, exc=None):
        self.events.append(ev)
        self.obs.append({"new": None if new is None else Snap(new), "mut": None if mut is None else Snap(mut),
                         "ret": None if ret is None else np.asarray(ret), "exc": exc})

    def call(self, ev, fn, kind=None, mut_id=None):
        """fn() performs the library call; returns the new object (kind given) or a value."""
        try:
            out = fn()
        except Exception as e:
            self.record(ev, exc=type(e).__name__)
            return None
        if kind is not None:
            self.add(out, kind)
            self.record(ev, new=out)
        elif mut_id is not None:
            self.record(ev, mut=self.objs[mut_id - 1])
        else:
            self.record(ev, ret=out)
        return out

    # -- constructors
    def new_measure(self):
        rng, D = self.rng, self.D
        R = rng.choice([1, 2, 2, 3])
        diag = rng.random() < 0.3
        qL = [qrec(rand_spd(rng, D, diag)) for _ in range(R)]
        qn = [qrec(rand_vec(rng, D)) for _ in range(R)]
        qb = [qrec(Fraction(rng.choice([-1, 0, 1, 2]), rng.choice([1, 2]))) for _ in range(R)]
        cls = "DiagMeasure" if diag else "Measure"
        C = measure.GaussianDiagMeasure if diag else measure.GaussianMeasure
        ev = {"op": "NewMeasure", "cls": cls, "Lambda": qL, "nu": qn, "ln_beta": qb}
        self.call(ev, lambda: C(Lambda=stack(qL), nu=stack(qn), ln_beta=jnp.asarray([qb_["n"] / qb_["d"] for qb_ in qb])), "measure")

    def new_pdf(self, D=None, R=None):
        rng = self.rng
        D = D or self.D
        R = R or rng.choice([1, 1, 2, 3])
        qS = [qrec(rand_spd(rng, D)) for _ in range(R)]
        qm = [qrec(rand_vec(rng, D)) for _ in range(R)]
        ev = {"op": "NewPdf", "Sigma": qS, "mu": qm}
        self.call(ev, lambda: pdf.GaussianPDF(Sigma=stack(qS), mu=stack(qm)), "pdf")

    def new_factor(self):
        rng, D = self.rng, self.D
        R = rng.choice([1, 2, 3])
        cls = rng.choice(["Factor", "Rank1", "Linear", "Const"])
        qn = [qrec(rand_vec(rng, D)) for _ in range(R)]
        qb = [qrec(Fraction(rng.choice([-1, 0, 1, 2]), rng.choice([1, 2]))) for _ in range(R)]
        qL = [qrec(rand_spd(rng, D)) for _ in range(R)]
        qv = [qrec(rand_vec(rng, D)) for _ in range(R)]
        qg = [qrec(Fraction(rng.choice([1, 2, 3]), rng.choice([1, 2]))) for _ in range(R)]
        lnb = jnp.asarray([q["n"] / q["d"] for q in qb])
        g = jnp.asarray([q["n"] / q["d"] for q in qg])
        ev = {"op": "NewFactor", "cls": cls, "Lambda": qL, "v": qv, "g": qg, "nu": qn, "ln_beta": qb, "num_dim": D}
        mk = {"Factor": lambda: factor.ConjugateFactor(Lambda=stack(qL), nu=stack(qn), ln_beta=lnb),
              "Rank1": lambda: factor.OneRankFactor(v=stack(qv), g=g, nu=stack(qn), ln_beta=lnb),
              "Linear": lambda: factor.LinearFactor(nu=stack(qn), ln_beta=lnb),
              "Const": lambda: factor.ConstantFactor(ln_beta=lnb, num_dim=D)}[cls]
        self.call(ev, mk, "factor")

    def new_cond(self):
        rng = self.rng
        Dx = self.D
        Dy = rng.choice([1, 2, Dx])
        R = rng.choice([1, 1, 2])
        qM = [qrec(rand_mat(rng, Dy, Dx)) for _ in range(R)]
        qb = [qrec(rand_vec(rng, Dy)) for _ in range(R)]
        qS = [qrec(rand_spd(rng, Dy)) for _ in range(R)]
        ev = {"op": "NewCond", "M": qM, "b": qb, "Mat": qS}
        self.call(ev, lambda: conditional.ConditionalGaussianPDF(M=stack(qM), b=stack(qb), Sigma=stack(qS)), "cond")

    # -- one random step
    def step(self):
        rng = self.rng
        meas = self.ids("measure", "pdf")
        pdfs = self.ids("pdf")
        fam = self.ids("measure", "pdf", "factor")
        conds = self.ids("cond")
        ops = []
        if meas:
            ops += ["Query"] * 3 + ["Normalize", "GetDensity", "Multiply", "Multiply", "Hadamard", "EvaluateQ",
                    "Integrate", "Integrate", "IntegrateLogFactor"]
        if fam:
            ops += ["Product", "Slice", "Slice"]
        if pdfs:
            ops += ["Marginal", "ConditionOn", "Entropy", "KL", "Update"]
        if conds:
            ops += ["CondOnX", "SetY", "Transform", "Transform", "UpdateSigma", "SliceCond", "Info"]
        ops += ["NewFactor"] if self.family == "M" else ["NewPdfX"]
        op = rng.choice(ops)
        O = self.objs

        def R(i):
            return int(O[i - 1].R)

        def Dm(i):
            return int(O[i - 1].D)

        if op == "NewFactor":
            return self.new_factor()
        if op == "NewPdfX":
            return self.new_pdf()
        if op == "Query":
            i = rng.choice(meas)
            q = rng.choice(["integral", "integral_light", "log_integral", "log_integral_light"])
            return self.call({"op": "Query", "i": i, "q": q}, lambda: getattr(O[i - 1], q)())
        if op == "Normalize":
            i = rng.choice(meas)
            return self.call({"op": "Normalize", "i": i}, lambda: O[i - 1].normalize(), mut_id=i)
        if op == "GetDensity":
            i = rng.choice(meas)
            return self.call({"op": "GetDensity", "i": i}, lambda: O[i - 1].get_density(), "pdf")
        if op in ("Multiply", "Hadamard"):
            i = rng.choice(meas)
            cands = [j for j in fam if Dm(j) == Dm(i)]
            j = rng.choice(cands)
            full = rng.random() < 0.5
            if op == "Multiply":
                if R(i) * R(j) > self.max_r:
                    return None
                return self.call({"op": "Multiply", "i": i, "j": j, "full": full},
                                 lambda: O[i - 1].multiply(O[j - 1], update_full=full), "measure")
            if not (R(i) == R(j) or R(i) == 1 or R(j) == 1):
                return None
            return self.call({"op": "Hadamard", "i": i, "j": j, "full": full},
                             lambda: O[i - 1].hadamard(O[j - 1], update_full=full), "measure")
        if op == "EvaluateQ":
            i = rng.choice(meas)
            qx = [qrec(rand_vec(rng, Dm(i))) for _ in range(rng.choice([1, 2]))]
            return self.call({"op": "EvaluateQ", "i": i, "x": qx}, lambda: O[i - 1].evaluate_ln(stack(qx)))
        if op == "Integrate":
            i = rng.choice(meas)
            D, Ri = Dm(i), R(i)
            key = rng.choice(["x", "(Ax+a)", "xx'", "(Ax+a)'(Bx+b)", "(Ax+a)(Bx+b)'", "(Ax+a)(Bx+b)'(Cx+c)",
                              "(Ax+a)'(Bx+b)(Cx+c)'", "(Ax+a)'(Bx+b)(Cx+c)'(Dx+d)", "(Ax+a)(Bx+b)'(Cx+c)(Dx+d)'"])
            K, L, M = rng.choice([(1, 2, 3), (2, 3, 1), (3, 1, 2), (2, 2, 2)])
            rows = {"(Ax+a)": (K,), "(Ax+a)'(Bx+b)": (K, K), "(Ax+a)(Bx+b)'": (K, L), "(Ax+a)(Bx+b)'(Cx+c)": (K, L, L),
                    "(Ax+a)'(Bx+b)(Cx+c)'": (K, K, L), "(Ax+a)'(Bx+b)(Cx+c)'(Dx+d)": (K, K, L, L),
                    "(Ax+a)(Bx+b)'(Cx+c)(Dx+d)'": (K, L, L, M)}.get(key, ())
            none = {"mm": "none", "mat": [], "vm": "none", "vec": []}
            coefs, kw = [], {}
            for nm, k in zip("ABCD", rows):
                mm = rng.choice(["shared", "shared", "per"])
                vm = rng.choice(["shared", "per", "none"])
                mats = [qrec(rand_mat(rng, k, D)) for _ in range(Ri if mm == "per" else 1)]
                vecs = [qrec(rand_vec(rng, k)) for _ in range(Ri if vm == "per" else 1)] if vm != "none" else []
                coefs.append({"mm": mm, "mat": mats, "vm": vm, "vec": vecs})
                kw[nm + "_mat"] = stack(mats) if mm == "per" else jnp.asarray(qfloat(mats[0]))
                if vm != "none":
                    kw[nm.lower() + "_vec"] = stack(vecs) if vm == "per" else jnp.asarray(qfloat(vecs[0]))
            while len(coefs) < 4:
                coefs.append(none)
            ev = {"op": "Integrate", "i": i, "key": key, "A": coefs[0], "B": coefs[1], "C": coefs[2], "D": coefs[3]}
            return self.call(ev, lambda: O[i - 1].integrate(key, **kw))
        if op == "IntegrateLogFactor":
            i = rng.choice(meas)
            cands = [j for j in fam if Dm(j) == Dm(i) and (R(j) == 1 or R(j) == R(i))]
            if not cands:
                return None
            j = rng.choice(cands)
            return self.call({"op": "IntegrateLogFactor", "i": i, "j": j}, lambda: O[i - 1].integrate("log u(x)", factor=O[j - 1]))
        if op == "Info":
            i = rng.choice(conds)
            cands = [j for j in pdfs if Dm(j) == int(O[i - 1].Dx) and (R(i) == 1 or R(j) == 1)]
            if not cands:
                return None
            j = rng.choice(cands)
            kind = rng.choice(["conditional_entropy", "mutual_information"])
            return self.call({"op": "Info", "kind": kind, "i": i, "j": j}, lambda: getattr(O[i - 1], kind)(O[j - 1]))
        if op == "Product":
            i = rng.choice(fam)
            return self.call({"op": "Product", "i": i}, lambda: O[i - 1].product(),
                             "factor" if self.kinds[i - 1] == "factor" else "measure")
        if op in ("Slice", "SliceCond"):
            i = rng.choice(fam if op == "Slice" else conds)
            Ri = R(i)
            n = rng.choice([1, 2, 3])
            idx1 = [rng.randrange(1, Ri + 1) for _ in range(n)]
            idx = [(k - 1 - Ri) if rng.random() < 0.4 else k - 1 for k in idx1]
            return self.call({"op": "Slice", "i": i, "idx": idx, "idx1": idx1},
                             lambda: O[i - 1].slice(jnp.array(idx, dtype=jnp.int32)), self.kinds[i - 1])
        if op == "Marginal":
            i = rng.choice(pdfs)
            D = Dm(i)
            dims1 = rng.sample(range(1, D + 1), rng.randrange(1, D + 1))
            return self.call({"op": "Marginal", "i": i, "dims1": dims1},
                             lambda: O[i - 1].get_marginal(jnp.array([d - 1 for d in dims1], dtype=jnp.int32)), "pdf")
        if op == "ConditionOn":
            cands = [i for i in pdfs if Dm(i) >= 2 and type(O[i - 1]) is pdf.GaussianPDF]
            if not cands:
                return None
            i = rng.choice(cands)
            D = Dm(i)
            dy1 = rng.sample(range(1, D + 1), rng.randrange(1, D))
            return self.call({"op": "ConditionOn", "i": i, "dy1": dy1},
                             lambda: O[i - 1].condition_on(jnp.array([d - 1 for d in dy1], dtype=jnp.int32)), "cond")
        if op == "Entropy":
            i = rng.choice(pdfs)
            return self.call({"op": "Entropy", "i": i}, lambda: O[i - 1].entropy())
        if op == "KL":
            i = rng.choice(pdfs)
            cands = [j for j in pdfs if Dm(j) == Dm(i) and (R(j) == R(i) or R(j) == 1 or R(i) == 1)]
            j = rng.choice(cands)
            return self.call({"op": "KL", "i": i, "j": j}, lambda: O[i - 1].kl_divergence(O[j - 1]))
        if op == "Update":
            i = rng.choice(pdfs)
            cands = [j for j in pdfs if j != i and Dm(j) == Dm(i) and R(j) <= R(i) and type(O[j - 1]) is type(O[i - 1])]
            if not cands:
                return None
            j = rng.choice(cands)
            idx1 = rng.sample(range(1, R(i) + 1), R(j))
            return self.call({"op": "Update", "i": i, "idx1": idx1, "j": j},
                             lambda: O[i - 1].update(jnp.array([k - 1 for k in idx1], dtype=jnp.int32), O[j - 1]), mut_id=i)
        if op == "CondOnX":
            i = rng.choice(conds)
            if R(i) * 2 > self.max_r:
                return None
            qx = [qrec(rand_vec(rng, int(O[i - 1].Dx))) for _ in range(rng.choice([1, 2]))]
            return self.call({"op": "CondOnX", "i": i, "x": qx}, lambda: O[i - 1].condition_on_x(stack(qx)), "pdf")
        if op == "SetY":
            cands = [i for i in conds if int(O[i - 1].Dx) == int(O[i - 1].Dy)]   # Dx != Dy: known finding KF-1, exercised by B1
            if not cands:
                return None
            i = rng.choice(cands)
            N = R(i) if R(i) > 1 else rng.choice([1, 2, 3])
            qy = [qrec(rand_vec(rng, int(O[i - 1].Dy))) for _ in range(N)]
            return self.call({"op": "SetY", "i": i, "y": qy}, lambda: O[i - 1].set_y(stack(qy)), "factor")
        if op == "Transform":
            i = rng.choice(conds)
            cands = [j for j in pdfs if Dm(j) == int(O[i - 1].Dx) and R(i) * R(j) <= self.max_r]
            if not cands:
                return None
            j = rng.choice(cands)
            kind = rng.choice(["joint", "marginal", "conditional"])
            return self.call({"op": "Transform", "kind": kind, "i": i, "j": j},
                             lambda: getattr(O[i - 1], f"affine_{kind}_transformation")(O[j - 1]),
                             "cond" if kind == "conditional" else "pdf")
        if op == "UpdateSigma":
            i = rng.choice(conds)
            qS = [qrec(rand_spd(rng, int(O[i - 1].Dy))) for _ in range(R(i))]
            return self.call({"op": "UpdateSigma", "i": i, "Sigma": qS}, lambda: O[i - 1].update_Sigma(stack(qS)), mut_id=i)
        return None

    def run(self):
        if self.family == "M":
            self.new_measure() if self.rng.random() < 0.6 else self.new_pdf()
            self.new_factor()
        else:
            self.new_cond()
            self.new_pdf(R=1 if int(self.objs[0].R) > 1 else None)
        guard = 0
        while len(self.events) < self.length and guard < 20 * self.length:
            guard += 1
            self.step()
        self.final = [Snap(o) for o in self.objs]
        return self


def generate(seed, n_traces, length, family):
    rng = random.Random(seed)
    sessions = []
    for t in range(n_traces):
        fam = family if family in ("M", "C") else rng.choice(["M", "C"])
        sessions.append(Session(rng, fam, rng.randrange(max(3, length // 2), length + 1)).run())
    return sessions
