"""Registry: property -> model instances (TLA+ module + cfg) explored by the quick / thorough tier."""

PROPS = {
    "C01": {
        "quick": [{"module": "MC_C01", "cfg": "MC_C01_quick.cfg", "nprimes": 6},
                  {"module": "MC_PROD", "cfg": "MC_PROD_quick.cfg", "nprimes": 10}],
        "level_text": "Exhaustive TLC exploration of every configuration of the product operations on an exact model (proves the pointwise-product identity for all evaluation points via a unisolvent lattice), bound to the code by replaying every explored behaviour and comparing all observables at 1e-8.",
        "level_note": "Inputs range over exact rational menus (D<=2 quick / D<=3 thorough, R1,R2<=3 plus one D=4, 2x5 instance; product() alone for every batch size 1..9 quick / 1..17 thorough; one instance on badly scaled matrices with condition numbers up to 4e3; one instance repeats the product after normalize() of the measure); code conformance is established on the explored behaviours only; trusted: TLC, CRT decoding, float64 rounding below tolerance on cond<1e2 inputs.",
        "explanation": "TLC enumerates every configuration (measure kind x constructor mode x cache state x factor kind x "
                       "entry point x update_full x batch sizes) and proves pointwise multiplication on the unisolvent "
                       "lattice for the specification; each behaviour is replayed into the real library and every "
                       "parameter, cache, evaluation and mass is compared with the exact expected value.",
    },
}

_LN = ("Inputs range over exact rational menus (dimensions and batch sizes as listed in the instance cfg; *_aniso.cfg instances use badly scaled matrices with condition numbers 5e2..4e3, MC_MUT instances repeat the call after an operand was mutated in place); code conformance is "
       "established on the explored behaviours only; trusted: TLC, CRT decoding, float64 rounding below tolerance on cond<1e2 inputs.")

PROPS["C05"] = {
    "quick": [{"module": "MC_PDF", "cfg": "MC_C05_quick.cfg", "nprimes": 6}],
    "level_text": "TLC enumerates every ordered coordinate subset and every linear-map configuration and proves, on the unisolvent lattice, that marginal x conditional = joint (marginal = integral over the dropped coordinates) and the change-of-variables identity for linear images; every behaviour is replayed into the code.",
    "level_note": _LN,
    "explanation": "all ordered subsets of coordinates for D<=3; linear sums with Dsum<=D, b given/omitted",
}
PROPS["C06"] = {
    "quick": [{"module": "MC_PDF", "cfg": "MC_C06_quick.cfg", "nprimes": 6}],
    "level_text": "TLC enumerates every proper ordered subset (condition_on) and every ordered partition (condition_on_explicit) and proves p(x_a|x_b)p(x_b)=p(x) for all points via the lattice; replayed into the code including condition_on_x of the returned conditional.",
    "level_note": _LN,
    "explanation": "all proper ordered subsets / ordered partitions for D in {2,3}, R<=3",
}

def _inst(t):
    d = {"module": t[0], "cfg": t[1], "nprimes": 6}
    if len(t) > 2:
        d.update(t[2])
    return d


def _cond(pid, cfgs, text, expl):
    PROPS[pid] = {"quick": [_inst(t) for t in cfgs],
                  "level_text": text, "level_note": _LN, "explanation": expl}

_cond("C07", [("MC_COND", "MC_C07_quick.cfg"), ("MC_NN", "MC_NN_quick.cfg", {"require_acts": ["NNOp", "SetControl"]})],
      "TLC enumerates conditional class x constructor mode x (Dy,Dx) in both log-determinant regimes x batch pattern and proves joint(x,y) = p(y|x)p(x) for all points via the lattice, plus coherence of the information-form precision and both log-determinant branches; replayed into the code, with the documented refusal for batches on both sides.",
      "4 conditional classes x 3 modes x b given/omitted x Dims {1,2}^2 x (R_c,R_x) in {(1,1),(1,2),(2,1),(3,1),(2,2)}")
_cond("C08", [("MC_COND", "MC_C08_quick.cfg"), ("MC_NN", "MC_NN_quick.cfg", {"require_acts": ["NNOp", "SetControl"]})],
      "TLC proves marginal transformation = y-marginal of the joint and Bayes' identity p(x|y)p(y)=p(y|x)p(x) on the lattice for every configuration; replayed into the code.",
      "as C07")
_cond("C09", [("MC_COND", "MC_C09_quick.cfg"), ("MC_NN", "MC_NN_quick.cfg", {"require_acts": ["NNOp", "SetControl"]})],
      "TLC proves Bayes' identity for the conditional transformation and both round trips component-wise; replayed into the code including condition_on_x of the posterior conditional.",
      "as C07")
_cond("C10", [("MC_COND", "MC_C10_quick.cfg"), ("MC_NN", "MC_NN_quick.cfg", {"require_acts": ["NNOp", "SetControl"]})],
      "TLC proves set_y(y)(x) = N(y; Mx+b, Sigma) incl. normaliser on the lattice for every class, Dx != Dy included, R=1 with N observations and R=N; replayed into the code and followed through evaluate, product, multiply and log_integral.",
      "Dims incl. (3,1),(1,3); N in 1..3")
_cond("C13", [("MC_PDF", "MC_C13a_quick.cfg"), ("MC_PDF", "MC_C13c_quick.cfg"), ("MC_COND", "MC_C13b_quick.cfg"), ("MC_NN", "MC_NN_quick.cfg", {"require_acts": ["NNOp", "SetControl"]})],
      "TLC proves the closed forms equal their definitions through exact moments (entropy = -E[ln p], KL = E_p[ln p - ln q], H(Y|X) = H(X,Y)-H(X) = -E[ln p(y|x)], MI = H(X)+H(Y)-H(X,Y), swap symmetry, MI = 0 for M = 0, KL = 0 for equal densities); replayed into the code; sign clauses checked on the code's values.",
      "D<=3, R<=3 incl. 1-vs-n KL; all conditional classes; M = 0 included")

_cond("C03", [("MC_C03", "MC_C03_quick.cfg")],
      "TLC enumerates the 11 polynomial keys x coefficient modes (omitted / shared / per-component, matrix and vector independently) x output dimensions K != L != M x measures with mass != 1 and densities; expected values are mass x Isserlis moment from the semantic layer (no transcription of the einsum formulas); table-internal rearrangement identities are checked by TLC; every behaviour is replayed, exact mode compared bit-exactly.",
      "D in {2,3}, (K,L,M) permutations of (1,2,3), R in {1,2}, at most one form deviating from shared/shared per behaviour (quick)")

_cond("C14", [("MC_C03", "MC_C14_quick.cfg"), ("MC_COND", "MC_C14a_quick.cfg"), ("MC_COND", "MC_C14b_quick.cfg"),
              ("MC_C16", "MC_C14c_quick.cfg", {"require_acts": ["FeatIntLogCond"]}),
              ("MC_C16", "MC_C14d_quick.cfg", {"require_acts": ["FeatIntLogCondY"]}), ("MC_NN", "MC_NN_quick.cfg"), ("MC_NN", "MC_NNq_quick.cfg", {"require_acts": ["NNOp"]})],
      "Expected log-factor and expected log-conditional integrals are defined in the specification through exact Isserlis moments (E[x' Lam x], E[x]) for arbitrary Gaussian q, enumerated over every factor kind / conditional class / batch pattern, and replayed into the code (callable and y-given variants).",
      "all factor kinds with R_f in {1, R_u}; conditional classes Cond, CondDiag, CondId, CondIdDiag; RBF and squared-exponential feature models (kernel expectations as exp-atoms from the semantic layer, replacing the property's quadrature oracle by the exact value); q an arbitrary Gaussian over (y,x)")

PROPS["C04"] = {
    "quick": [{"module": "MC_SESSION", "cfg": "MC_C04M_quick.cfg", "nprimes": 6, "sample_mod": 10,
               "require_acts": ["Multiply", "Hadamard", "GetDensity", "Normalize", "Product", "Slice", "Query"]},
              {"module": "MC_SESSION", "cfg": "MC_C04C_quick.cfg", "nprimes": 6,
               "require_acts": ["Transform", "CondOnX", "SetY", "UpdateSigma", "ConditionOn", "Marginal", "Update", "Slice"]},
              {"kind": "b2", "traces": 120, "length": 8, "family": "MC", "nprimes": 10}],
    "level_text": "The session state machine is explored exhaustively by TLC (every operation sequence up to the depth, cache-warming queries interleaved; invariant: every populated cache of every live object equals the value derived from its defining parameters, for the implementation-shaped cache formulas incl. Sherman-Morrison, determinant lemma, covariance reuse, diagonal inversion); every explored history is replayed into the code and every cache field the code exposes is compared with the exactly derived value after every step.",
    "level_note": _LN + " History depth is bounded (see cfg); deeper histories are sampled in the thorough tier.",
    "explanation": "family M: measure/factor algebra; family C: conditionals, transformations, likelihood factors, marginals, update",
}

_cond("C11", [("MC_C11", "MC_C11s_quick.cfg"), ("MC_C11", "MC_C11k_quick.cfg")],
      "TLC explores every order of sequential updating as interleavings of the session machine, plus the joint route and the likelihood-factor route, and proves at completion that posterior and accumulated evidence equal the reference from the semantic layer (normalised prior x likelihoods; for Kalman filtering the dense joint over all states and observations assembled in the specification); every behaviour (every order) is replayed into the code step by step.",
      "static: Dw,Dy in {1,2}, N in {2,3} (all N! orders), classes Cond/CondDiag; Kalman: T=3, Dx,Dy in {1,2}, identity and general transitions")

_cond("C02", [("MC_C02", "MC_C02_quick.cfg"), ("MC_SESSION", "MC_C04C_quick.cfg")],
      "TLC checks in every reachable state of the scenario and session models that the reported log-mass (lnZ cache + ln_beta, light and full paths) equals the Gaussian integral of the function the object evaluates to, that every density-class object has mass one and equals the normal density of its own mean/covariance on the unisolvent lattice, and that normalize() divides by the mass; all constructor argument combinations and every density-returning API are enumerated; every behaviour is replayed into the code (all five mass queries in two orders).",
      "8 constructor variants x 7 modifications x 2 query orders; session family C for densities returned by slicing, marginalising, conditioning and the affine transformations")
_cond("C12", [("MC_SESSION", "MC_C12M_quick.cfg", {"sample_mod": 16, "require_acts": ["Multiply", "Hadamard", "Slice", "Product"]}),
              ("MC_SESSION", "MC_C12C_quick.cfg", {"sample_mod": 2, "require_acts": ["Transform", "CondOnX", "SetY", "Slice", "Update"]})],
      "In the specification every operation is defined component-wise with the documented index maps (i*R2+j, r*N+n, batch index of the non-singleton operand) and TLC checks them (Inv_Slice, Inv_Pointwise, Inv_Transform, Inv_CondOnX, Inv_SetY, Inv_Update) in every state of session models with R=3 operands and index arrays with repetitions, permutations and negative entries; the explored histories contain both op;slice and slice;op and each is replayed into the code and compared with the exact component values, so cross-component leakage shows as a per-step mismatch.",
      "R in {1,3}, slice patterns incl. negatives/repeats/permutations, session depth per cfg; every second family-M behaviour replayed (hash-sampled, all checked by TLC)")
_cond("C15", [("MC_C01", "MC_C15a_quick.cfg"), ("MC_COND", "MC_C15b_quick.cfg"), ("MC_C03", "MC_C15c_quick.cfg"), ("MC_NN", "MC_NN_quick.cfg", {"require_acts": ["NNOp", "SetControl"]})],
      "For every specialised class (diagonal measures/densities/conditionals, identity-mean conditionals, rank-one/linear/constant factors) TLC proves that the class-specific code path modelled in the specification (diagonal inversion, Sherman-Morrison + determinant lemma, covariance reuse, M = I) yields the same function as the general object with the same parameters (Inv_Generalize, Inv_CacheCoherent, Inv_Transform...); the code is bound by replaying every behaviour and comparing with the general-semantics expected values.",
      "all specialised classes x the operations they support (products, integrals, transformations, set_y, information quantities)")

_cond("C20", [("MC_C20", "MC_C20_quick.cfg")],
      "Truncated moments are specified as values with Phi/phi atoms at rational standardised limits through an antiderivative whose correctness TLC checks as a polynomial identity (certificate), together with additivity over adjacent intervals (cut-point atoms cancel symbolically) and agreement with Isserlis moments for the untruncated interval; every configuration (measure / density base, truncated measure / normalised pdf, finite / one-sided / far-tail limits, scalar / array limits, k = 0..6, call inside / outside / on the boundary, mean, variance) is replayed into the code.",
      "R in {1,2}; 8 limit patterns; k in 0..6; tolerance as stated by the property (1e-8 of the untruncated |x|^k integral; ratios whose truncated mass is below float64 cdf resolution are counted as skipped)")

_cond("C19", [("MC_C19", "MC_C19_quick.cfg")],
      "Specification: sample(key,n)[s][r] = mu_r + L_r z[s][r] with z the key's normal stream of shape (n,R,D); TLC checks L_r L_r' = Sigma_r for the factor paired with each component. Binding: the code is run with jax.random.normal replaced by TLC-chosen integer streams and by every one-hot basis stream (this extracts the code's full coefficient tensor: independence across draws and components, factor/component pairing, shape, single use of the caller's key), and un-patched with real keys (equality with mu + L normal(key), reproducibility). Given this structure the law follows from jax.random.normal being iid N(0,1) (trusted); a 6-standard-error moment check is kept as an auxiliary line.",
      "D,R in 1..3, pairwise distinct strongly correlated covariances with exactly known Cholesky factors")

PROPS["C18"] = {
    "runner": "c18",
    "quick": [{"module": "MC_C01", "cfg": "MC_C15a_quick.cfg", "nprimes": 6},
              {"module": "MC_COND", "cfg": "MC_C15b_quick.cfg", "nprimes": 6},
              {"module": "MC_C03", "cfg": "MC_C15c_quick.cfg", "nprimes": 6},
              {"module": "MC_C11", "cfg": "MC_C11k_quick.cfg", "nprimes": 14, "kalman": True},
              {"module": "MC_NN", "cfg": "MC_NN_quick.cfg", "nprimes": 6, "n_jit": 40, "n_prog": 0},
              {"module": "MC_C03", "cfg": "MC_C03_quick.cfg", "nprimes": 6, "n_jit": 10, "n_prog": 3},
              {"module": "MC_PDF", "cfg": "MC_C06_quick.cfg", "nprimes": 6, "n_jit": 8, "n_prog": 3},
              {"module": "MC_PDF", "cfg": "MC_C05_quick.cfg", "nprimes": 6, "n_jit": 8, "n_prog": 3},
              {"module": "MC_C16", "cfg": "MC_C16_quick.cfg", "nprimes": 6, "n_jit": 0, "n_prog": 5},
              # every factor / measure / density kind, fresh and cache-warmed: all behaviours (dict + pytree round trips)
              {"module": "MC_PROD", "cfg": "MC_PROD_c18.cfg", "nprimes": 6, "n_jit": 100, "n_prog": 0}],
    "quick_n_jit": 10, "quick_n_prog": 3,
    "thorough_n_jit": 250, "thorough_n_prog": 40,
    "level_text": "(i) The pytree / to_dict protocol is a TLA+ state machine (spec/Pytree.tla) over a class table extracted from the current code (fields, init flags, __dict__ keys of fresh and cache-warmed instances, flatten output, to_dict keys); TLC checks that no class in any cache state can reach a rejected protocol state (flatten, unflatten, traced argument, to_dict, from_dict, iterated). (ii) Behaviours of the specification are replayed with EVERY step executed as jax.jit(step)(operand objects), so operands, results and mutated objects cross the boundary as pytrees, and all observables are compared with the exact expected values (hence with the eager run). (iii) Whole behaviours as one jitted program, reverse-mode gradient along a fixed input direction vs central differences, the Kalman filter as lax.scan with the density as carry, evaluation / set_y / condition_on_x under vmap over the data axis.",
    "level_note": _LN + " Gradients are checked against finite differences (1e-5 relative), not against the specification. NN-controlled conditionals carry a Python callable and are outside the pytree clause.",
    "explanation": "class-table model + sampled behaviours of MC_C01 / MC_COND / MC_C03 / MC_C11(kalman) under jit, grad, scan, vmap",
    "technique": "TLC on a protocol model extracted from the code + TLC behaviours replayed under jit/vmap/scan/grad",
}

_cond("C16", [("MC_C16", "MC_C16_quick.cfg")],
      "Moments of y under p(y|x)p(x) are defined in the specification as values with atoms: kernel expectations are exp-atoms whose exponent the semantic layer computes as the log-mass of the product measure (TLC cross-checks them against the independent convolution-of-Gaussians closed form and checks unit height of every kernel), link expectations are exp / Phi / phi atoms at rational arguments; mean, covariance and cross-covariance of the marginal and joint transformations of every class are replayed into the code; p(y|x) is condition_on_x of the same object; the conditional transformation is checked as the Gaussian conditional of the (validated) joint on the code's own objects.",
      "6 classes; Dx,Dy in {1,2}; 1-2 kernels / noise units; Da in {2,3}; p(x) with R in {1,2}; non-zero offsets")

_cond("C17", [("MC_C16", "MC_C17_quick.cfg")],
      "PARTIAL CLAIM (see level_note). Clause 1: condition_on_x of every heteroscedastic class is specified exactly (mean Mx+b, covariance AA' + A_k diag(link(Wx+w0)) A_k' with link values as rationals or exp-atoms at exact points) and replayed; the precision / log-determinant / normalisation of the returned density are checked for coherence with the returned covariance on the code object (for Da = Dy and Da > Dy). Step link: integrate_log_conditional_y is specified as the exact expectation E[ln p(y|x)] through truncated Gaussian moments (Phi/phi atoms at rational arguments) for square A, any Dk <= Da, Dx in {1,2}, and replayed. Tightness at zero input weights (exp and cosh-1 links, non-zero offsets, square A): the bound must equal the closed-form homoscedastic value (sigmoid / ln(1+e^t) / sech / ln cosh atoms) - gap exactly zero.",
      "4 link classes; Dy,Dx in {1,2}; Dk in {1,2}; Da in {2,3}; points on both sides of every hyperplane h_i = 0")
PROPS["C17"]["level_note"] = ("Clause 2 (the value never exceeds the true expectation) is decided STRUCTURALLY, not by computing the true expectation: "
    "every ingredient of the bound is shown to equal, for ARBITRARY rational expansion points chosen by TLC, the expectation of a bound that is valid for every "
    "expansion point (tangent of a concave function; Jaakkola-Jordan) - the log-determinant ingredient k_func for the exp, cosh-1 and rectified-linear links, the "
    "heteroscedastic quadratic ingredient for the rectified-linear link - and the shipped value is shown to be the stated combination of these ingredient functions "
    "(evaluated at the code's own expansion points) with the exact homoscedastic terms of the specification. NOT DECIDED: the quadratic ingredient of the exp and "
    "cosh-1 links (its Gaussian integral has the transcendental tanh(om/2)/om inside a matrix inverse, which the atom algebra cannot represent) and the quadratic "
    "decay of the gap (clause 3, except the zero-weight equality, which is decided). The ingredients are internals (k_func, _lower_bound_integrals, _get_omega_*): "
    "if a refactoring removes or re-signs them the steps give no verdict (counter bound_ingredient_not_exposed), never an alarm. The step-link equality is decided "
    "for square A only (for Da > Dy the shipped decomposition is the known finding KF-2). " + _LN)

import os as _os
_SPEC = _os.path.join(_os.path.dirname(_os.path.dirname(_os.path.abspath(__file__))), "spec")
PROPS["C12"]["quick"] += [
    {"module": "MC_C03", "cfg": "MC_C12I_quick.cfg", "nprimes": 8, "require_acts": ["Integrate", "IntegrateLogFactor"]},
    {"module": "MC_COND", "cfg": "MC_C12J_quick.cfg", "nprimes": 6, "require_acts": ["Info"]},
    {"module": "MC_PDF", "cfg": "MC_C12K_quick.cfg", "nprimes": 6, "require_acts": ["KL", "Update", "Slice"]}]
# badly scaled inputs (condition numbers 5e2 .. 4e3, offsets >= 10 select the anisotropic menus): data-dependent branches
for _pid, _m, _c in (("C01", "MC_C01", "MC_C01_aniso.cfg"), ("C05", "MC_PDF", "MC_C05_aniso.cfg"), ("C06", "MC_PDF", "MC_C06_aniso.cfg"),
                     ("C13", "MC_PDF", "MC_C13a_aniso.cfg"), ("C13", "MC_COND", "MC_C13b_aniso.cfg"), ("C07", "MC_COND", "MC_C07_aniso.cfg"),
                     ("C08", "MC_COND", "MC_C08_aniso.cfg"), ("C09", "MC_COND", "MC_C09_aniso.cfg"), ("C10", "MC_COND", "MC_C10_aniso.cfg")):
    PROPS[_pid]["quick"].append({"module": _m, "cfg": _c, "nprimes": 14})
# repeat a call after an operand was mutated in place (update / update_Sigma / normalize): results are functions of the
# CURRENT operand values (no memo keyed on object identity, no cache surviving a mutation) - spec/MC_MUT.tla
for _pid, _c in (("C07", "C07"), ("C08", "C08"), ("C09", "C09"), ("C13", "C13"), ("C13", "C13p"), ("C14", "C14"), ("C14", "C14j"),
                 ("C05", "C05"), ("C06", "C06"), ("C01", "C01"), ("C04", "C01"), ("C04", "C13p"), ("C04", "C07")):
    PROPS[_pid]["quick"].append({"module": "MC_MUT", "cfg": "MC_MUT_%s_quick.cfg" % _c, "nprimes": 10, "require_acts": ["Update"] if _c != "C01" else ["Normalize"]})
# update() with unsorted / non-consecutive / negative index arrays on batches of 3 and 4 components
PROPS["C12"]["quick"].append({"module": "MC_PDF", "cfg": "MC_C12U_quick.cfg", "nprimes": 6, "require_acts": ["Update"]})
# the diagonal density class through every density operation (marginal, linear image, conditioning, entropy, KL against full)
PROPS["C15"]["quick"].append({"module": "MC_PDF", "cfg": "MC_C15d_quick.cfg", "nprimes": 6, "require_acts": ["LinearSum", "ConditionOn", "Entropy"]})
PROPS["C15"]["quick"].append({"module": "MC_PDF", "cfg": "MC_C13a_quick.cfg", "nprimes": 6, "require_acts": ["KL"]})
# integrals on a measure whose caches were filled by an earlier light / full query, normalize() or integral
PROPS["C03"]["quick"].append({"module": "MC_C03", "cfg": "MC_C03w_quick.cfg", "nprimes": 6, "require_acts": ["Integrate", "IntegrateLogFactor", "Normalize"]})
# two approximate conditionals of one class alive at once, used alternately (state leaking between instances)
PROPS["C16"]["quick"].append({"module": "MC_C16B", "cfg": "MC_C16B_quick.cfg", "nprimes": 6, "require_acts": ["ApproxTransform", "ApproxCondOnX"]})
# the same matrices in very small units (entries x 2e-9; offsets >= 20): branches on ABSOLUTE thresholds (allclose defaults, fixed jitter)
for _pid, _m, _c in (("C05", "MC_PDF", "MC_C05_micro.cfg"), ("C06", "MC_PDF", "MC_C06_micro.cfg"), ("C13", "MC_PDF", "MC_C13a_micro.cfg"),
                     ("C13", "MC_COND", "MC_C13b_micro.cfg"), ("C07", "MC_COND", "MC_C07_micro.cfg"), ("C08", "MC_COND", "MC_C08_micro.cfg"),
                     ("C09", "MC_COND", "MC_C09_micro.cfg")):
    PROPS[_pid]["quick"].append({"module": _m, "cfg": _c, "nprimes": 22})
# (no micro instance for C10: set_y multiplies unit-scale data by a precision of 1e9, the information vector of the
#  posterior then cancels to O(1) and float64 rounding of the TERMS exceeds 1e-8 of the RESULT's scale - an ill-posed
#  comparison, not a property violation; found on the unchanged tree before the instance was registered)
# NumPy containers: objects built from and called with writable NumPy arrays; the library must not write into them
for _pid, _m, _c in (("C01", "MC_PROD", "MC_PROD_c18.cfg"), ("C03", "MC_C03", "MC_C03w_quick.cfg"), ("C05", "MC_PDF", "MC_C05_aniso.cfg"),
                     ("C06", "MC_PDF", "MC_C06_aniso.cfg"), ("C07", "MC_COND", "MC_C07_aniso.cfg"), ("C08", "MC_COND", "MC_C08_aniso.cfg"),
                     ("C09", "MC_COND", "MC_C09_aniso.cfg"), ("C10", "MC_COND", "MC_C10_aniso.cfg"), ("C11", "MC_C11", "MC_C11s_quick.cfg"),
                     ("C13", "MC_COND", "MC_C13b_aniso.cfg"), ("C14", "MC_COND", "MC_C14b_quick.cfg")):
    PROPS[_pid]["quick"].append({"module": _m, "cfg": _c, "nprimes": 14, "container": "numpy"})

# truncation of a measure that was used before (an integral, or an earlier truncated object on the same measure)
PROPS["C20"]["quick"].append({"module": "MC_C20", "cfg": "MC_C20w_quick.cfg", "nprimes": 6, "require_acts": ["Query", "TruncCall"]})
# observations / conditioning points tens of standard deviations away from the model (log-densities of -1e3 .. -1e4)
PROPS["C10"]["quick"].append({"module": "MC_COND", "cfg": "MC_C10_far.cfg", "nprimes": 14, "require_acts": ["SetY", "CondOnX"]})
# product() of the specialised kinds themselves (R = 1 included), followed by an in-place operation on the result
PROPS["C15"]["quick"].append({"module": "MC_PROD", "cfg": "MC_PROD_c18.cfg", "nprimes": 6, "require_acts": ["Product", "Normalize"]})
PROPS["C12"]["quick"].append({"kind": "b2", "traces": 80, "length": 6, "family": "MC", "nprimes": 10})
PROPS["C02"]["quick"].append({"kind": "b2", "traces": 60, "length": 6, "family": "MC", "nprimes": 10})
_THOROUGH_SAMPLING = {"MC_C04M_thorough.cfg": 40, "MC_C04C_thorough.cfg": 24, "MC_C12M_thorough.cfg": 60, "MC_C12C_thorough.cfg": 12}
for _pid, _sp in PROPS.items():
    _th = []
    for _i in _sp["quick"]:
        _t = dict(_i)
        if _t.get("kind") == "b2":
            _t.update(traces=_t["traces"] * 10, length=12, nprimes=14)
            _th.append(_t)
            continue
        _cand = _i["cfg"].replace("_quick.cfg", "_thorough.cfg")
        if _os.path.exists(_os.path.join(_SPEC, _cand)):
            _t["cfg"] = _cand
        _t["nprimes"] = max(10, _t.get("nprimes", 0))
        _t["timeout"] = 10800
        if _t["cfg"] in _THOROUGH_SAMPLING:
            _t["sample_mod"] = _THOROUGH_SAMPLING[_t["cfg"]]
        _th.append(_t)
    _sp["thorough"] = _th
for _pid, _m, _c in (("C01", "MC_C01", "MC_C01_xl.cfg"), ("C07", "MC_COND", "MC_C07_xl.cfg"), ("C08", "MC_COND", "MC_C08_xl.cfg"),
                     ("C09", "MC_COND", "MC_C09_xl.cfg"), ("C10", "MC_COND", "MC_C10_xl.cfg"), ("C06", "MC_PDF", "MC_C06_xl.cfg"),
                     ("C13", "MC_PDF", "MC_C13a_xl.cfg"), ("C12", "MC_C01", "MC_C01_xl.cfg"), ("C15", "MC_C01", "MC_C01_xl.cfg")):
    PROPS[_pid]["thorough"].append({"module": _m, "cfg": _c, "nprimes": 12, "timeout": 10800})
    if _pid not in ("C12", "C15"):
        PROPS[_pid]["quick"].append({"module": _m, "cfg": _c, "nprimes": 22 if _pid == "C01" else 12})
PROPS["C03"]["thorough"].append({"module": "MC_C03", "cfg": "MC_C03b_thorough.cfg", "nprimes": 12, "timeout": 10800})
PROPS["C04"]["thorough"].append({"module": "MC_SESSION", "cfg": "MC_C04Mf_thorough.cfg", "nprimes": 10, "timeout": 10800, "sample_mod": 10,
                                 "require_acts": ["Multiply", "Hadamard"]})

NOT_APPLICABLE = {}
HOOK_COMMITS = []
