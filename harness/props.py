"""Registry: property -> model instances (TLA+ module + cfg) explored by the quick / thorough tier."""

PROPS = {
    "C01": {
        "quick": [{"module": "MC_C01", "cfg": "MC_C01_quick.cfg", "nprimes": 6}],
        "level_text": "Exhaustive TLC exploration of every configuration of the product operations on an exact model (proves the pointwise-product identity for all evaluation points via a unisolvent lattice), bound to the code by replaying every explored behaviour and comparing all observables at 1e-8.",
        "level_note": "Inputs range over exact rational menus (D<=2 quick / D<=3 thorough, R<=3); code conformance is established on the explored behaviours only; trusted: TLC, CRT decoding, float64 rounding below tolerance on cond<1e2 inputs.",
        "explanation": "TLC enumerates every configuration (measure kind x constructor mode x cache state x factor kind x "
                       "entry point x update_full x batch sizes) and proves pointwise multiplication on the unisolvent "
                       "lattice for the specification; each behaviour is replayed into the real library and every "
                       "parameter, cache, evaluation and mass is compared with the exact expected value.",
    },
}

NOT_APPLICABLE = {}
HOOK_COMMITS = []
