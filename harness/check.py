"""Command line of the verification framework:  ./check <property> [--tier quick|thorough] [--replay file]

exit 0: the property held on everything explored (known findings are printed as KNOWN-FINDING lines)
exit 1: a violation not listed in known_findings.json was found (VIOLATION line with a replay file)
exit 2: the machinery itself failed (TLC error, invariant of the specification violated, decode failure)
"""
from __future__ import annotations

import argparse
import hashlib
import json
import os
import re
import sys
import time
from fractions import Fraction

VERIF = os.path.dirname(os.path.dirname(os.path.abspath(__file__)))
sys.path.insert(0, VERIF)

from harness import decode, tlcrun  # noqa: E402
from harness.props import PROPS  # noqa: E402


def load_known():
    with open(os.path.join(VERIF, "known_findings.json")) as f:
        return json.load(f)


def match_known(prop, mm, known):
    for kf in known.get("findings", []):
        if prop not in kf["property"]:
            continue
        if kf.get("act") and not re.fullmatch(kf["act"], mm["act"]):
            continue
        if kf.get("field") and not re.search(kf["field"], mm["field"]):
            continue
        ctx = dict(mm["ctx"])
        try:
            if kf.get("where") and not eval(kf["where"], {"__builtins__": {}}, _Ctx(ctx)):
                continue
        except Exception:
            continue
        return kf
    return None


class _Ctx(dict):
    def __missing__(self, key):
        return None


_FRAC = re.compile(r"^-?\d+(/\d+)?$")


def from_jsonable(x):
    if isinstance(x, str) and _FRAC.match(x):
        return Fraction(x)
    if isinstance(x, list):
        return [from_jsonable(v) for v in x]
    if isinstance(x, dict):
        if set(x.keys()) == {"q", "k", "r", "float"}:
            return decode.LNum(Fraction(x["q"]), x["k"], Fraction(x["r"]))
        return {k: from_jsonable(v) for k, v in x.items()}
    return x


def beh_to_json(beh):
    out = []
    for st in beh:
        d = {"act": st["act"], "a": st["a"], "id": st["id"], "mid": st["mid"]}
        for fld in ("f", "o", "mo", "ret"):
            d[fld] = decode.to_jsonable(st[fld])
        out.append(d)
    return out


def beh_from_json(js):
    out = []
    for st in js:
        d = {"act": st["act"], "a": st["a"], "id": st["id"], "mid": st["mid"]}
        for fld in ("f", "o", "mo", "ret"):
            d[fld] = from_jsonable(st[fld])
        out.append(d)
    return out


def summarize(beh):
    parts = []
    for st in beh:
        a = {k: v for k, v in st["a"].items() if isinstance(v, (int, str, bool))}
        parts.append(st["act"] + "(" + ",".join(f"{k}={v}" for k, v in sorted(a.items())) + ")")
    return " ; ".join(parts)


def sample_detail(beh, limit=1500):
    """One explored behaviour written out: per step the action, its plain arguments and the decoded expected values."""
    out = []
    for st in beh:
        d = {"act": st["act"], "args": {k: v for k, v in st["a"].items() if isinstance(v, (int, str, bool, list))}}
        for fld in ("o", "mo", "ret"):
            if st[fld]:
                txt = json.dumps(decode.to_jsonable(decode.to_float(st[fld])), default=str)
                d["expected_" + fld] = txt if len(txt) <= limit else txt[:limit] + "...(truncated)"
        out.append(d)
    return out


def write_replay(prop, beh, mm):
    rdir = os.environ.get("VERIF_REPLAY_DIR") or os.path.join(VERIF, "replays")
    os.makedirs(rdir, exist_ok=True)
    body = {"property": prop, "mismatch": mm, "behaviour": beh_to_json(beh)}
    h = hashlib.sha1(json.dumps(body, sort_keys=True, default=str).encode()).hexdigest()[:12]
    path = os.path.join(rdir, f"{prop}-{h}.json")
    with open(path, "w") as f:
        json.dump(body, f, indent=1, default=str)
    return path


def signature(mm):
    c = mm["ctx"]
    return json.dumps([mm["act"], mm["field"], mm["note"].split("(")[0],
                       {k: v for k, v in sorted(c.items()) if k not in ("i", "j", "k")}], sort_keys=True, default=str)


def nontrivial_key(beh):
    """A behaviour is non-trivial if some object in it has D > 1 or R > 1; distinct by its action/plain-arg skeleton."""
    nt = False
    for st in beh:
        o = st.get("o")
        if isinstance(o, dict):
            for k in ("Lam", "M", "Sig"):
                if k in o and o[k]:
                    if len(o[k]) > 1 or len(o[k][0]) > 1:
                        nt = True
    return nt, summarize(beh)


def explore(inst, seed, tier):
    """Run one model instance (retrying with more primes when magnitudes need them). Returns (behaviours, stats)."""
    with open(os.path.join(tlcrun.SPEC_DIR, inst["cfg"])) as f:
        cfg_text = f.read()
    sim = None
    if inst.get("simulate"):
        sim = dict(inst["simulate"])
        sim["seed"] = seed + 1
    consts = dict(inst.get("consts") or {})
    if inst.get("sample_mod"):      # TLC checks every behaviour; the exporter prints the residue class chosen by the seed
        consts["SampleMod"] = inst["sample_mod"]
        consts["SampleRes"] = seed % inst["sample_mod"]
    err = None
    for nprimes in (inst.get("nprimes", 8), 14, 22, 36):
        try:
            behs, stats = tlcrun.run_model(inst["module"], cfg_text, nprimes=nprimes,
                                           timeout=inst.get("timeout", 1200 if tier == "quick" else 7200), simulate=sim,
                                           extra_consts=consts)
            # vacuity guard: every action the instance is meant to exercise must occur in the exported behaviours
            seen = {st["act"] for b in behs for st in b}
            missing = [a for a in inst.get("require_acts", []) if a not in seen]
            if missing:
                raise tlcrun.TlcError(f"vacuous instance {inst['cfg']}: actions never taken: {missing}")
            return behs, stats
        except decode.DecodeError as e:   # magnitudes need more primes: rerun the same model with more
            err = e
            continue
    raise err


def run_check(prop, tier, seed):
    try:
        from harness import replay  # imports jax + the library under test from /repo
    except Exception as e:   # the library under test does not import: nothing can be checked
        print(f"MACHINERY-ERROR property={prop} cannot import gaussian_toolbox from {os.environ.get('VERIF_REPO', '/repo')}: "
              f"{type(e).__name__}: {e}")
        return 2
    spec = PROPS[prop]
    if spec.get("runner") == "c18":
        from harness import c18
        return c18.run(prop, tier, seed)
    known = load_known()
    t0 = time.time()
    insts = spec[tier] if tier in spec else spec["quick"]
    all_stats = []
    mismatches = {}
    n_replayed = 0
    samples = []
    nontrivial = set()
    acts = {}
    rp = replay.Replayer()
    rp2 = replay.Replayer()
    for inst in insts:
        if inst.get("kind") == "b2":      # executions recorded from the code, validated by TLC against spec/Trace.tla
            from harness import b2
            try:
                mms, stats, nt, ne = b2.validate(seed, inst["traces"], inst["length"], inst.get("family", "MC"),
                                                 nprimes=inst.get("nprimes", 8))
            except (tlcrun.TlcError, decode.DecodeError) as e:
                print(f"MACHINERY-ERROR property={prop} B2 trace validation: {e}")
                return 2
            all_stats.append(stats)
            n_replayed += nt
            rp.count("b2_traces_recorded_from_code", nt)
            rp.count("b2_events_validated", ne)
            for ck, cv in b2.counters.items():
                rp.count("b2_" + ck, cv)
            rp.calls += ne
            samples.append({"instance": "B2 recorded trace", "events": nt and ne})
            for mm, b in mms:
                sig = signature(mm)
                if sig not in mismatches:
                    mismatches[sig] = (mm, b, 1)
                else:
                    m0, b0, c = mismatches[sig]
                    mismatches[sig] = (m0, b0, c + 1)
            continue
        try:
            behs, stats = explore(inst, seed, tier)
        except (tlcrun.TlcError, decode.DecodeError) as e:
            print(f"MACHINERY-ERROR property={prop} {inst['module']}/{inst['cfg']}: {e}")
            return 2
        all_stats.append(stats)
        if not behs:
            print(f"MACHINERY-ERROR property={prop} {inst['module']}/{inst['cfg']}: no behaviour exported")
            return 2
        behs = sorted(behs, key=summarize)      # deterministic pairing; neighbours share their action skeleton
        replay._CONTAINER[0] = inst.get("container") or os.environ.get("VERIF_CONTAINER", "jax")
        if replay._CONTAINER[0] == "numpy":
            rp.count("behaviours_with_numpy_containers", len(behs))
        step = max(1, len(behs) // 3)
        for b in behs[::step][:3]:
            samples.append({"instance": inst["cfg"], "behaviour": summarize(b)})
        samples.append({"instance": inst["cfg"], "behaviour_with_expected_values": sample_detail(behs[len(behs) // 2])})
        for b in behs:
            nt, key = nontrivial_key(b)
            if nt:
                nontrivial.add(key)
            for st in b:
                acts[st["act"]] = acts.get(st["act"], 0) + 1
        # Behaviours are replayed in PAIRS, interleaved step by step in one process (two Replayers with separate heaps):
        # objects of different behaviours are independent, so state leaking between instances of a class (a class-level
        # cache, a module-level memo) shows up as a mismatch of one of the two.  A behaviour that deviates is replayed
        # once more ALONE; the report says whether the deviation needs the partner.
        for k in range(0, len(behs), 2):
            if k % 400 == 0:
                replay.jax.clear_caches()      # thousands of distinct compiled programs otherwise exhaust the process' memory maps
            pair = behs[k:k + 2]
            if len(pair) == 1:
                results = [rp.run(pair[0])]
            else:
                gens = [rp.run_iter(pair[0]), rp2.run_iter(pair[1])]
                results, live = [None, None], [True, True]
                while any(live):
                    for gi in (0, 1):
                        if live[gi]:
                            try:
                                next(gens[gi])
                            except StopIteration as stop:
                                results[gi], live[gi] = stop.value, False
            for gi, (b, mm) in enumerate(zip(pair, results)):
                n_replayed += 1
                if mm is None:
                    continue
                if len(pair) == 2:
                    alone = replay.Replayer().run(b)
                    if alone is None:
                        mm["note"] = "[only when interleaved with another behaviour of the instance: state leaks between objects] " + mm["note"]
                        mm["interleaved_with"] = summarize(pair[1 - gi])
                    else:
                        mm = alone
                sig = signature(mm)
                if sig not in mismatches:
                    mismatches[sig] = (mm, b, 1)
                else:
                    m0, b0, c = mismatches[sig]
                    mismatches[sig] = (m0, b0, c + 1)
    for ck, cv in rp2.counters.items():
        rp.count(ck, cv)
    rp.count("behaviours_replayed_interleaved_in_pairs", 2 * (n_replayed // 2))
    return finalize(prop, tier, seed, t0, spec, insts, all_stats, mismatches, n_replayed, samples, nontrivial, acts,
                    rp.counters, rp.calls + rp2.calls, known)


def finalize(prop, tier, seed, t0, spec, insts, all_stats, mismatches, n_replayed, samples, nontrivial, acts, counters, calls,
             known, extra_cov=None):
    violations = 0
    known_hits = {}
    for sig, (mm, b, count) in mismatches.items():
        kf = match_known(prop, mm, known)
        if kf is not None:
            k = kf["id"]
            known_hits[k] = known_hits.get(k, 0) + count
            continue
        path = write_replay(prop, b, mm)
        violations += 1
        print(f"VIOLATION property={prop} replay={path}")
        print(f"  step {mm['step']} {mm['act']} field={mm['field']} {mm['note']} ctx={mm['ctx']} ({count} behaviours)")
    for kf in known.get("findings", []):
        if prop in kf["property"] and kf["id"] in known_hits:
            print(f"KNOWN-FINDING: property={prop} {kf['id']} {kf['what']} ({known_hits[kf['id']]} behaviours)")
    wall = time.time() - t0
    cov = {
        "states": sum(s["distinct"] or 0 for s in all_stats),
        "transitions": sum(s["states"] or 0 for s in all_stats),
        "traces_validated_against_impl": n_replayed,
        "samples": samples,
        "evaluations": calls,
        "distinct_nontrivial": len(nontrivial),
        "rule": "one evaluation = one public library call replayed from a TLC behaviour; a behaviour is non-trivial "
                "if some object in it has more than one component or dimension > 1; distinct = distinct sequence of "
                "(action, plain arguments)",
        "exhaustive": all(not i.get("simulate") and not i.get("sample_mod") and i.get("kind") != "b2" for i in insts),
        "instances": all_stats,
        "actions": acts,
        "counters": counters,
        "known_findings_hit": known_hits,
        "explanation": spec.get("explanation", ""),
    }
    cov.update(extra_cov or {})
    ev = {
        "property_id": prop, "tier": tier, "seed": seed, "level": "model_checking",
        "coverage": cov,
        "assumptions": spec.get("assumptions", []) + [
            "Gaussian integral formula, Isserlis' theorem (axioms of the semantic layer)",
            "TLC evaluates TLA+ correctly; GF(p) arithmetic for the primes used; CRT/rational reconstruction (harness/decode.py)",
            "float64 rounding on the menu inputs (cond < 1e2) stays below the 1e-8 comparison tolerance",
        ],
        "wall_s": round(wall, 2),
        "violations": violations,
    }
    evdir = os.environ.get("VERIF_EVIDENCE_DIR") or os.path.join(VERIF, "evidence")
    os.makedirs(evdir, exist_ok=True)
    with open(os.path.join(evdir, f"{prop}.json"), "w") as f:
        json.dump(ev, f, indent=1)
    print(f"{prop} {tier}: {n_replayed} behaviours replayed ({calls} calls), "
          f"{cov['states']} TLC states, {violations} violations, "
          f"{sum(known_hits.values())} known-finding hits, {wall:.1f}s")
    return 1 if violations else 0


def run_replay(path):
    from harness import replay
    with open(path) as f:
        body = json.load(f)
    beh = beh_from_json(body["behaviour"])
    mm = replay.Replayer().run(beh)
    if mm is None:
        print(f"replay {path}: behaviour conforms to the specification")
        return 0
    print(f"VIOLATION property={body['property']} replay={path}")
    print(json.dumps(mm, indent=1, default=str)[:3000])
    return 1


def main():
    ap = argparse.ArgumentParser()
    ap.add_argument("prop", nargs="?")
    ap.add_argument("--tier", default=os.environ.get("VERIF_TIER", "quick"))
    ap.add_argument("--replay")
    args = ap.parse_args()
    seed = int(os.environ.get("VERIF_SEED", "0") or 0)
    if args.replay:
        sys.exit(run_replay(args.replay))
    if args.prop not in PROPS:
        print(f"unknown property {args.prop}")
        sys.exit(2)
    sys.exit(run_check(args.prop, args.tier, seed))


if __name__ == "__main__":
    main()
