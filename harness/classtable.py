"""C18 mechanism (i): extract the pytree / dictionary class table from the CURRENT code and let TLC check the
protocol model spec/Pytree.tla on it."""
from __future__ import annotations

import dataclasses
import json
import os
import re
import shutil
import subprocess
import time

import numpy as np
import jax
from jax import numpy as jnp

from gaussian_toolbox import conditional, factor, measure, pdf

from . import tlcrun


def _instances():
    S = jnp.array([[[2.0, 1.0], [1.0, 2.0]], [[3.0, -1.0], [-1.0, 1.0]]])
    Dg = jnp.array([[[2.0, 0.0], [0.0, 1.0]], [[1.0, 0.0], [0.0, 3.0]]])
    m = jnp.array([[1.0, -1.0], [0.5, 2.0]])
    b = jnp.array([0.5, -1.0])
    M = jnp.array([[[1.0, 2.0]], [[-1.0, 0.5]]])
    b1 = jnp.array([[1.0], [0.0]])
    S1 = jnp.array([[[2.0]], [[0.5]]])
    return {
        "ConjugateFactor": lambda: factor.ConjugateFactor(Lambda=S, nu=m, ln_beta=b),
        "OneRankFactor": lambda: factor.OneRankFactor(v=m, g=jnp.array([2.0, 0.5]), nu=m, ln_beta=b),
        "LinearFactor": lambda: factor.LinearFactor(nu=m, ln_beta=b),
        "ConstantFactor": lambda: factor.ConstantFactor(ln_beta=b, num_dim=2),
        "GaussianMeasure": lambda: measure.GaussianMeasure(Lambda=S, nu=m, ln_beta=b),
        "GaussianDiagMeasure": lambda: measure.GaussianDiagMeasure(Lambda=Dg, nu=m, ln_beta=b),
        "GaussianPDF": lambda: pdf.GaussianPDF(Sigma=S, mu=m),
        "GaussianDiagPDF": lambda: pdf.GaussianDiagPDF(Sigma=Dg, mu=m),
        "ConditionalGaussianPDF": lambda: conditional.ConditionalGaussianPDF(M=M, b=b1, Sigma=S1),
        "ConditionalGaussianDiagPDF": lambda: conditional.ConditionalGaussianDiagPDF(M=M, b=b1, Sigma=S1),
        "ConditionalIdentityGaussianPDF": lambda: conditional.ConditionalIdentityGaussianPDF(Sigma=S),
        "ConditionalIdentityDiagGaussianPDF": lambda: conditional.ConditionalIdentityDiagGaussianPDF(Sigma=Dg),
    }


def _warm(obj):
    """Populate every cache the public API can populate."""
    if isinstance(obj, measure.GaussianMeasure):
        obj.integrate("x")
        obj.log_integral_light()
    return obj


def _kind_bad(v):
    if v is None or isinstance(v, (jax.Array, np.ndarray)):
        return False
    if dataclasses.is_dataclass(v):
        return False
    if isinstance(v, (float,)):
        return False
    return True     # python int / str / callable / anything JAX would trace or reject


def extract():
    table = {}
    observed = {}
    for name, mk in _instances().items():
        cls = type(mk())
        flds = dataclasses.fields(cls)
        entry = {"fields": sorted(f.name for f in flds), "init": sorted(f.name for f in flds if f.init), "states": {}}
        for state in ("fresh", "warm"):
            o = mk()
            if state == "warm":
                o = _warm(o)
            try:
                leaves_treedef = jax.tree_util.tree_flatten(o, is_leaf=lambda x: x is not o and dataclasses.is_dataclass(x))
                treedef = leaves_treedef[1]
                aux = treedef.node_data()[1]
            except Exception as e:
                entry["states"][state] = {"dyn": sorted(o.__dict__.keys()), "stat": [], "bad": ["<flatten raises: %s>" % type(e).__name__]}
                observed[(name, state)] = {"flatten": False}
                continue
            if isinstance(aux, tuple) and len(aux) == 2 and isinstance(aux[0], tuple) and isinstance(aux[1], tuple) \
                    and all(isinstance(x, tuple) and len(x) == 2 for x in aux[1]):
                dyn, stat = list(aux[0]), [k for k, _ in aux[1]]
            else:
                dyn, stat = list(aux), []
            bad = [k for k in dyn if _kind_bad(o.__dict__.get(k))]
            entry["states"][state] = {"dyn": sorted(dyn), "stat": sorted(stat), "bad": sorted(bad)}
            # what actually happens (cross-check of the model against the code)
            obs = {"flatten": True}
            try:
                jax.tree_util.tree_unflatten(treedef, leaves_treedef[0])
                obs["unflatten"] = True
            except Exception:
                obs["unflatten"] = False
            try:
                jax.jit(lambda x: x)(o)
                obs["jit"] = True
            except Exception:
                obs["jit"] = False
            observed[(name, state)] = obs
        o = mk()
        if hasattr(o, "to_dict"):
            d = o.to_dict()
            entry["todict"] = sorted(d.keys())
            try:
                cls.from_dict(d)
                observed[(name, "dict")] = {"fromdict": True}
            except Exception:
                observed[(name, "dict")] = {"fromdict": False}
        else:
            entry["todict"] = ["<none>"]
        table[name] = entry
    return table, observed


def _set(xs):
    return "{" + ", ".join('"%s"' % x for x in xs) + "}"


def to_tla(table):
    rows = []
    for name, e in table.items():
        sts = ", ".join('%s |-> [dyn |-> %s, stat |-> %s, bad |-> %s]' % (st, _set(v["dyn"]), _set(v["stat"]), _set(v["bad"]))
                        for st, v in e["states"].items())
        rows.append('  %s |-> [fields |-> %s, init |-> %s,\n      states |-> [%s],\n      todict |-> %s]'
                    % (name, _set(e["fields"]), _set(e["init"]), sts, _set(e["todict"])))
    return ("----------------------------- MODULE PytreeTable -----------------------------\n"
            "(* generated from the current code by harness/classtable.py *)\n"
            "Table == [\n" + ",\n".join(rows) + "\n]\n"
            "=============================================================================\n")


def run_tlc(table):
    """Returns (ok, stats, violation_text)."""
    workdir = tlcrun.scratch_dir()
    try:
        for fn in ("Pytree.tla", "MC_C18.cfg"):
            shutil.copy(os.path.join(tlcrun.SPEC_DIR, fn), os.path.join(workdir, fn))
        with open(os.path.join(workdir, "PytreeTable.tla"), "w") as f:
            f.write(to_tla(table))
        cmd = ["java", "-XX:+UseParallelGC", "-Djava.io.tmpdir=" + workdir, "-Xss64m", "-Xmx1g", "-cp", tlcrun.JAR, "tlc2.TLC", "-workers", "1",
               "-metadir", os.path.join(workdir, "meta"), "-noGenerateSpecTE", "-config", "MC_C18.cfg", "Pytree.tla"]
        t0 = time.time()
        pr = subprocess.run(cmd, cwd=workdir, capture_output=True, text=True, timeout=600)
        out = pr.stdout + pr.stderr
        m = tlcrun._SUMMARY.search(out)
        stats = {"module": "Pytree", "states": int(m.group(1)) if m else None, "distinct": int(m.group(2)) if m else None,
                 "tlc_wall_s": time.time() - t0}
        if "Invariant" in out and "is violated" in out:
            i = out.index("Error: Invariant")
            return False, stats, out[i:i + 4000]
        if pr.returncode != 0 or "Error:" in out:
            raise tlcrun.TlcError("Pytree model: " + out[-3000:])
        return True, stats, ""
    finally:
        shutil.rmtree(workdir, ignore_errors=True)
