"""Exact number domains at the boundary between TLC and Python.

TLC computes in GF(p) for K different primes p (one TLC process per prime, identical model).
This module merges the K exported JSON trees of one behaviour, recovers every rational number by
CRT + Wang's rational reconstruction (with a safety margin), and turns log-numbers / atom sums
into floats.  It contains no Gaussian algebra.
"""
from __future__ import annotations

import math
from fractions import Fraction
from functools import lru_cache

# the largest primes below sqrt(2^31) (products of two residues fit TLC's 32-bit ints)
PRIMES = [46337, 46327, 46309, 46307, 46301, 46279, 46273, 46271, 46261, 46237,
          46229, 46219, 46199, 46187, 46183, 46181, 46171, 46153, 46147, 46141,
          46133, 46103, 46099, 46093, 46091, 46073, 46061, 46051, 46049, 46027,
          46021, 45989, 45979, 45971, 45959, 45953, 45949, 45943, 45893, 45887,
          45869, 45863, 45853, 45841, 45833, 45827, 45823, 45821]

HALF_LN_2PI = 0.5 * math.log(2.0 * math.pi)
MARGIN_BITS = 16          # |n|, d must be below sqrt(M/2) / 2^MARGIN_BITS


class DecodeError(Exception):
    """Machinery problem (not a property violation): too few primes for the magnitude."""


def _is_prime(n: int) -> bool:
    if n < 2:
        return False
    i = 2
    while i * i <= n:
        if n % i == 0:
            return False
        i += 1
    return True


assert all(_is_prime(p) and p < 46341 for p in PRIMES) and len(set(PRIMES)) == len(PRIMES)


@lru_cache(maxsize=None)
def _crt_basis(primes: tuple):
    M = 1
    for p in primes:
        M *= p
    coef = []
    for p in primes:
        Mi = M // p
        coef.append(Mi * pow(Mi, -1, p))
    bound = math.isqrt(M // 2) >> MARGIN_BITS
    return M, tuple(coef), bound


def _ratrec(x: int, M: int, bound: int):
    """Wang's rational reconstruction: n/d == x (mod M) with |n|, d <= bound, or None."""
    r0, r1 = M, x
    s0, s1 = 0, 1
    while r1 > bound:
        q = r0 // r1
        r0, r1 = r1, r0 - q * r1
        s0, s1 = s1, s0 - q * s1
    if s1 == 0 or abs(s1) > bound:
        return None
    if s1 < 0:
        r1, s1 = -r1, -s1
    if math.gcd(r1, s1) != 1:
        return None
    return Fraction(r1, s1)


_cache: dict = {}


def decode_residues(res: tuple, primes: tuple) -> Fraction:
    """res[i] is the residue modulo primes[i], or -1 (poison)."""
    key = (res, primes)
    v = _cache.get(key)
    if v is not None:
        return v
    good = tuple(i for i, r in enumerate(res) if r != -1)
    if len(good) < max(2, len(res) - 3):
        raise DecodeError(f"too many poisoned residues: {res}")
    ps = tuple(primes[i] for i in good)
    M, coef, bound = _crt_basis(ps)
    x = 0
    for i, c in zip(good, coef):
        x += res[i] * c
    x %= M
    v = _ratrec(x, M, bound)
    if v is None:
        raise DecodeError(f"rational reconstruction failed (need more primes): residues={res}")
    _cache[key] = v
    return v


class LNum:
    """q + k*(1/2)ln(2pi) + (1/2)ln(r) with exact q, r."""
    __slots__ = ("q", "k", "r")

    def __init__(self, q: Fraction, k: int, r: Fraction):
        self.q, self.k, self.r = q, k, r

    def __float__(self):
        if self.r <= 0:
            raise DecodeError(f"log of non-positive rational {self.r}")
        # ln of a Fraction without overflow
        lr = math.log(self.r.numerator) - math.log(self.r.denominator)
        return float(self.q) + self.k * HALF_LN_2PI + 0.5 * lr

    def __repr__(self):
        return f"LN(q={self.q}, k={self.k}, r={self.r})"

    def to_json(self):
        return {"q": str(self.q), "k": self.k, "r": str(self.r), "float": float(self)}


PLAIN_KEYS = {"k"}


def merge(trees: list, primes: tuple):
    """Merge the K per-prime JSON trees of the field-coded part of a step into one exact tree.

    ints -> Fraction (decoded), {"q","k","r"} -> LNum, lists/dicts recursively, everything
    else (bool, str, None) must agree between the trees and is passed through.
    """
    t0 = trees[0]
    if isinstance(t0, bool) or t0 is None or isinstance(t0, str):
        for t in trees[1:]:
            if t != t0:
                raise DecodeError(f"non-numeric leaf differs between primes: {t0!r} vs {t!r}")
        return t0
    if isinstance(t0, int):
        return decode_residues(tuple(trees), primes)
    if isinstance(t0, list):
        n = len(t0)
        for t in trees[1:]:
            if not isinstance(t, list) or len(t) != n:
                raise DecodeError("list shape differs between primes")
        return [merge([t[i] for t in trees], primes) for i in range(n)]
    if isinstance(t0, dict):
        keys = set(t0.keys())
        for t in trees[1:]:
            if not isinstance(t, dict) or set(t.keys()) != keys:
                raise DecodeError("record keys differ between primes")
        if keys == {"q", "k", "r"}:
            k = t0["k"]
            for t in trees[1:]:
                if t["k"] != k:
                    raise DecodeError("LN.k differs between primes")
            return LNum(decode_residues(tuple(t["q"] for t in trees), primes), k,
                        decode_residues(tuple(t["r"] for t in trees), primes))
        out = {}
        for key in t0:
            if key in PLAIN_KEYS:
                out[key] = t0[key]
            else:
                out[key] = merge([t[key] for t in trees], primes)
        return out
    raise DecodeError(f"unexpected JSON leaf {t0!r}")


def to_float(x):
    """Exact tree -> nested lists of floats (Fraction, LNum -> float)."""
    if isinstance(x, (Fraction, LNum)):
        return float(x)
    if isinstance(x, list):
        return [to_float(v) for v in x]
    if isinstance(x, dict):
        return {k: to_float(v) for k, v in x.items()}
    return x


def to_jsonable(x):
    if isinstance(x, Fraction):
        return str(x)
    if isinstance(x, LNum):
        return x.to_json()
    if isinstance(x, list):
        return [to_jsonable(v) for v in x]
    if isinstance(x, dict):
        return {k: to_jsonable(v) for k, v in x.items()}
    if hasattr(x, "tolist"):
        return x.tolist()
    return x


def qval(q) -> Fraction:
    """Plain exact menu scalar {"n": int, "d": int}."""
    return Fraction(q["n"], q["d"])


def qarr(q):
    """Plain exact menu array {"n": nested ints, "d": int} -> nested floats (exactly rounded)."""
    d = q["d"]

    def rec(n):
        if isinstance(n, list):
            return [rec(v) for v in n]
        return float(Fraction(n, d))
    return rec(q["n"])
