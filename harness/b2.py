"""B2: executions recorded from the real code (harness/driver.py) validated against the specification (spec/Trace.tla).

TLC re-executes every recorded event with the actions of the session machine, evaluates the invariants in every
state of every recorded execution, and prints the exact expected observables; this module compares them with what
the code returned.  A recorded call that the specification does not enable ("Rejected") is reported as a mismatch
(the driver only issues calls the documented contract allows).
"""
from __future__ import annotations

import json
import os
import tempfile

import numpy as np

from . import decode, driver, tlcrun
from .bindings_cond import check_conditional  # noqa: F401
from .decode import to_float, to_jsonable
from .replay import Mismatch, check_measure_family, cmp_exp, cmp_lin, lnf, FACTOR_CLASSES, MEASURE_CLASSES


def check_snapshot(snap, exp, where):
    cls = exp["cls"]
    if cls in MEASURE_CLASSES or cls in FACTOR_CLASSES:
        if cls in MEASURE_CLASSES and not snap.is_measure:
            raise Mismatch(where + ".class", snap.cls_name, cls, "not a Gaussian measure")
        if cls in ("PDF", "DiagPDF") and not snap.is_pdf:
            raise Mismatch(where + ".class", snap.cls_name, cls, "not a density")
        check_measure_family(snap, exp, where)
        return
    if not snap.is_cond:
        raise Mismatch(where + ".class", snap.cls_name, cls, "not a conditional")
    Sig = to_float(exp["Sig"])
    M = to_float(exp["M"])
    if snap.R != len(Sig):
        raise Mismatch(where + ".R", snap.R, len(Sig), "number of components")
    if not snap.is_id_cond:
        cmp_lin(where + ".M", snap.M, M)
        cmp_lin(where + ".b", snap.b, to_float(exp["b"]))
    cmp_lin(where + ".Sigma", snap.Sigma, Sig)
    cmp_lin(where + ".Lambda", snap.Lambda, to_float(exp["Lam"]))
    cmp_lin(where + ".ln_det_Sigma", snap.ln_det_Sigma, [lnf(x) for x in exp["dSig"]])


def _ill_conditioned(exp, limit=1e4):
    """The properties quantify over objects whose covariance / precision have condition number <= 1e4."""
    for key in ("Lam", "Sig"):
        if key in exp and exp[key]:
            for m in to_float(exp[key]):
                a = np.asarray(m, dtype=float)
                if a.ndim == 2 and a.shape[0] == a.shape[1] and a.shape[0] > 0:
                    w = np.linalg.eigvalsh(0.5 * (a + a.T))
                    if w.min() > 0 and w.max() / w.min() > limit:
                        return True
    return False


counters = {}


def validate(seed, n_traces, length, family, nprimes=8, timeout=1800):
    """Returns (mismatches: list of (mm dict, trace events), stats, n_traces, n_events)."""
    sessions = driver.generate(seed, n_traces, length, family)
    traces = [s.events for s in sessions]
    fd, path = tempfile.mkstemp(prefix="gt_traces_", suffix=".json", dir=os.environ.get("VERIF_SCRATCH") or tempfile.gettempdir())
    with os.fdopen(fd, "w") as f:
        json.dump(traces, f)
    try:
        with open(os.path.join(tlcrun.SPEC_DIR, "Trace.cfg")) as f:
            cfg_text = f.read()
        err = None
        behs = None
        for k in (nprimes, 14, 22, 36):
            try:
                behs, stats = tlcrun.run_model("Trace", cfg_text, nprimes=k, timeout=timeout, workers=1,
                                               extra_env={"TRACE_FILE": path})
                break
            except decode.DecodeError as e:
                err = e
        if behs is None:
            raise err
    finally:
        os.unlink(path)
    by_tid = {b[0]["a"]["tid"]: b[1:] for b in behs}
    if set(by_tid) != set(range(1, len(sessions) + 1)):
        raise tlcrun.TlcError(f"Trace.tla returned verdicts for {len(by_tid)} of {len(sessions)} traces")
    out = []
    n_events = 0
    for t, sess in enumerate(sessions, start=1):
        hist = by_tid[t]
        expect = {}
        mm = None
        try:
            for k, st in enumerate(hist):
                ev, ob = sess.events[k], sess.obs[k]
                n_events += 1
                ctx = {"act": st["act"], "op": ev["op"], "trace": t}
                if st["act"] == "Rejected":
                    raise Mismatch("enabled", f"code accepted {ev['op']}" if ob["exc"] is None else ob["exc"], "refused by the specification",
                                   "the specification does not enable this recorded call")
                exp_raise = st["a"].get("raises")
                if exp_raise or ob["exc"]:
                    if exp_raise != ob["exc"]:
                        raise Mismatch("raises", ob["exc"] or "no exception", exp_raise or "no exception", "exception behaviour differs")
                    continue
                if st["id"]:
                    if _ill_conditioned(st["o"]):
                        counters["traces_cut_ill_conditioned"] = counters.get("traces_cut_ill_conditioned", 0) + 1
                        hist = hist[:k]          # beyond the property's input class (cond > 1e4): stop validating this trace
                        break
                    expect[st["id"]] = st["o"]
                    check_snapshot(ob["new"], st["o"], "result")
                if st["mid"]:
                    expect[st["mid"]] = st["mo"]
                    check_snapshot(ob["mut"], st["mo"], "mutated")
                if ob["ret"] is not None and ev["op"] in ("Integrate", "IntegrateLogFactor"):
                    mass = np.exp(np.asarray(to_float(st["ret"]["ln"]), dtype=float))
                    c = np.asarray(to_float(st["ret"]["c"]), dtype=float)
                    if ev["op"] == "IntegrateLogFactor":
                        c = c + np.asarray(to_float(st["ret"]["lnc"]), dtype=float)
                    cmp_lin("return", ob["ret"], mass.reshape((-1,) + (1,) * (c.ndim - 1)) * c)
                elif ob["ret"] is not None:
                    ln = to_float(st["ret"]["ln"])
                    if ev["op"] == "Query" and not ev["q"].startswith("log"):
                        cmp_exp("return", ob["ret"], ln)
                    else:
                        cmp_lin("return", ob["ret"], ln)
                        if ev["op"] == "KL" and np.any(ob["ret"] < -1e-9):
                            raise Mismatch("return.sign", ob["ret"].tolist(), ">= 0", "negative KL divergence")
            if len(hist) == len(sess.events) and mm is None:
                # final sweep: every live object still matches the latest expected record (operands unchanged, caches coherent)
                ctx = {"act": "FinalSweep", "trace": t}
                for oid, exp in expect.items():
                    check_snapshot(sess.final[oid - 1], exp, f"final[{oid}]")
        except Mismatch as m:
            mm = {"step": k, "act": ctx["act"], "field": m.field, "note": "[recorded trace] " + m.note,
                  "observed": to_jsonable(m.observed), "expected": to_jsonable(m.expected), "ctx": ctx}
        if mm is not None:
            out.append((mm, [{"act": "Trace", "a": {"events": sess.events[: mm["step"] + 1]}, "id": 0, "mid": 0,
                              "f": [], "o": [], "mo": [], "ret": []}]))
    return out, stats, len(sessions), n_events
