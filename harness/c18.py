"""C18: JAX transformations and round trips preserve values.  Three mechanisms (DESIGN section 6, C18)."""
from __future__ import annotations

import json
import os
import random
import time

from . import check as chk
from . import classtable, decode, programs, replay, tlcrun
from .props import PROPS


def run(prop, tier, seed):
    spec = PROPS[prop]
    known = chk.load_known()
    t0 = time.time()
    rng = random.Random(seed)
    mismatches, all_stats, samples, nontrivial, acts = {}, [], [], set(), {}
    counters = {}

    def add(mm, beh):
        sig = chk.signature(mm)
        if sig in mismatches:
            m0, b0, c = mismatches[sig]
            mismatches[sig] = (m0, b0, c + 1)
        else:
            mismatches[sig] = (mm, beh, 1)

    # (i) class table extracted from the current code, checked by TLC on spec/Pytree.tla
    table, observed = classtable.extract()
    try:
        ok, stats, text = classtable.run_tlc(table)
    except tlcrun.TlcError as e:
        print(f"MACHINERY-ERROR property={prop} Pytree: {e}")
        return 2
    all_stats.append(stats)
    table_step = [{"act": "ClassTable", "a": {"table": table}, "id": 0, "mid": 0, "f": [], "o": [], "mo": [], "ret": []}]
    if not ok:
        add({"step": 0, "act": "ClassTable", "field": "pytree.protocol", "note": "TLC: Inv_NeverRejected / Inv_TableComplete violated",
             "observed": text[:3000], "expected": "no rejected protocol state", "ctx": {"act": "ClassTable"}}, table_step)
    for (cls, state), obs in sorted(observed.items()):
        for what, good in obs.items():
            counters["roundtrips_observed"] = counters.get("roundtrips_observed", 0) + 1
            if not good:
                add({"step": 0, "act": "ClassTable", "field": f"pytree.{what}", "note": f"{cls} ({state}): {what} fails on the code",
                     "observed": False, "expected": True, "ctx": {"act": "ClassTable", "cls": cls, "state": state, "what": what}},
                    table_step)
    samples.append({"class_table": {k: v["states"] for k, v in list(table.items())[:2]}})

    # (ii) behaviours replayed with every step under jit, objects crossing the boundary as pytrees
    # (iii) whole-program jit, grad vs finite differences, scan, vmap
    n_replayed = 0
    calls = 0
    n_jit = spec[tier + "_n_jit"] if tier + "_n_jit" in spec else spec["quick_n_jit"]
    n_prog = spec[tier + "_n_prog"] if tier + "_n_prog" in spec else spec["quick_n_prog"]
    for inst in (spec[tier] if tier in spec else spec["quick"]):
        try:
            behs, stats = chk.explore(inst, seed, tier)
        except (tlcrun.TlcError, decode.DecodeError) as e:
            print(f"MACHINERY-ERROR property={prop} {inst['module']}/{inst['cfg']}: {e}")
            return 2
        all_stats.append(stats)
        behs = sorted(behs, key=chk.summarize)
        rng.shuffle(behs)
        rp = replay.Replayer(mode="jit")
        n_jit_i = inst.get("n_jit", n_jit)
        n_prog_i = inst.get("n_prog", n_prog)
        for b in behs[:n_jit_i]:
            nt, key = chk.nontrivial_key(b)
            if nt:
                nontrivial.add(key)
            for st in b:
                acts[st["act"]] = acts.get(st["act"], 0) + 1
            mm = rp.run(b)
            n_replayed += 1
            if mm is not None:
                mm["note"] = "[jit-step] " + mm["note"]
                add(mm, b)
        calls += rp.calls
        for k, v in rp.counters.items():
            counters[k] = counters.get(k, 0) + v
        if behs:
            samples.append({"instance": inst["cfg"], "mode": "jit-step", "behaviour": chk.summarize(behs[0])})
        for b in behs[n_jit_i:n_jit_i + n_prog_i]:
            ctx = {"act": "Program", "cfg": inst["cfg"]}
            # A behaviour that already deviates when replayed eagerly is reported as that deviation (and matched against
            # the known findings with its proper step context); the transformed programs are only run on conforming ones.
            mm0 = replay.Replayer().run(b)
            if mm0 is not None:
                mm0["note"] = "[eager, before program checks] " + mm0["note"]
                add(mm0, b)
                n_replayed += 1
                continue
            try:
                if inst.get("kalman"):
                    programs.kalman_scan(b)
                    counters["scan_programs"] = counters.get("scan_programs", 0) + 1
                programs.jit_grad_check(b)
                counters["jit_grad_programs"] = counters.get("jit_grad_programs", 0) + 1
                counters["vmap_calls"] = counters.get("vmap_calls", 0) + programs.vmap_checks(b)
                n_replayed += 1
            except replay.Mismatch as m:
                add({"step": 0, "act": "Program", "field": m.field, "note": m.note, "observed": decode.to_jsonable(m.observed),
                     "expected": decode.to_jsonable(m.expected), "ctx": ctx}, b)
            except Exception as e:
                add({"step": 0, "act": "Program", "field": "program.raises", "note": f"{type(e).__name__}: {e}"[:300],
                     "observed": "exception", "expected": "value", "ctx": ctx}, b)
    return chk.finalize(prop, tier, seed, t0, spec, spec[tier] if tier in spec else spec["quick"], all_stats, mismatches,
                        n_replayed, samples, nontrivial, acts, counters, calls, known,
                        extra_cov={"class_table_classes": len(table)})
