#!/usr/bin/env python3
"""Derives the thorough-tier cfgs from the quick ones (same modules, same invariants, larger constants)."""
import os, re
SPEC = os.path.join(os.path.dirname(os.path.abspath(__file__)), "spec")

def derive(quick, thorough, subs):
    t = open(os.path.join(SPEC, quick)).read()
    for k, v in subs.items():
        t, n = re.subn(r"(?m)^(\s*" + re.escape(k) + r"\s*=\s*).*$", lambda m: m.group(1) + v, t)
        assert n == 1, (quick, k)
    open(os.path.join(SPEC, thorough), "w").write(t)

ALLDIMS = "{11, 12, 21, 22, 13, 31, 23, 32, 33}"
derive("MC_C01_quick.cfg", "MC_C01_thorough.cfg", {"Ds": "{1, 2, 3}", "R1s": "{1, 2, 3}", "R2s": "{1, 2, 3}", "Offs": "{0, 1}", "ExtraFK": '{"DiagMeasure", "DiagPDF:S"}'})
derive("MC_C02_quick.cfg", "MC_C02_thorough.cfg", {"Ds": "{1, 2, 3}", "Rs": "{1, 2, 3}", "FKinds": '{"Factor", "Rank1", "Linear", "Const"}'})
derive("MC_C03_quick.cfg", "MC_C03_thorough.cfg", {"MaxDeviate": "2", "Ds": "{2, 3}", "KLMs": "{123, 231, 312, 321}"})
derive("MC_C03_quick.cfg", "MC_C03b_thorough.cfg", {"MaxDeviate": "1", "Ds": "{1, 4}", "KLMs": "{245, 514}", "Rs": "{1, 3}"})
derive("MC_C05_quick.cfg", "MC_C05_thorough.cfg", {"Ds": "{1, 2, 3, 4}", "Rs": "{1, 2, 3}", "Offs": "{0, 1}", "PdfKinds": '{"PDF:S", "PDF:SL", "PDF:SLD", "DiagPDF:S", "DiagPDF:SLD"}'})
derive("MC_C06_quick.cfg", "MC_C06_thorough.cfg", {"Ds": "{2, 3, 4}", "Rs": "{1, 2, 3}", "Offs": "{0, 1}"})
for c in ("C07", "C08", "C09"):
    derive(f"MC_{c}_quick.cfg", f"MC_{c}_thorough.cfg", {"Dims": ALLDIMS, "RPairs": "{11, 12, 13, 21, 31, 22, 23}", "Offs": "{0, 1}", "Modes": '{"S", "L", "SLD"}'})
derive("MC_C10_quick.cfg", "MC_C10_thorough.cfg", {"Dims": ALLDIMS, "RPairs": "{11, 21, 31, 41}", "Offs": "{0, 1}", "Modes": '{"S", "L", "SLD"}'})
derive("MC_C11s_quick.cfg", "MC_C11s_thorough.cfg", {"Ns": "{2, 3, 4}", "Dims": "{11, 12, 21, 22, 31, 13}", "Offs": "{0, 1}",
                                                      "CondKinds": '{"Cond", "CondDiag", "CondId", "CondIdDiag"}'})
derive("MC_C11k_quick.cfg", "MC_C11k_thorough.cfg", {"Ns": "{6}", "Offs": "{0, 1, 2}"})
# measured (8 workers, 1 prime): 814k states / 3 min; the first attempt (6 factor kinds, RInit {1,2}) did not finish in 2 h
derive("MC_C04M_quick.cfg", "MC_C04M_thorough.cfg", {"Depth": "4", "Ds": "{2}", "RInit": "{2}", "MaxHeap": "6"})
derive("MC_C04M_quick.cfg", "MC_C04Mf_thorough.cfg", {"Depth": "3", "Ds": "{2}", "RInit": "{1, 2}", "FactorKinds": '{"Measure", "PDF:S"}', "MaxHeap": "5"})
derive("MC_C04C_quick.cfg", "MC_C04C_thorough.cfg", {"Depth": "3"})
# measured: 673k states / 2.5 min (MaxHeap 6, MaxR 9 passed 10M states without finishing)
derive("MC_C12M_quick.cfg", "MC_C12M_thorough.cfg", {"Depth": "4", "RInit": "{3}", "MaxHeap": "5", "MaxR": "6"})
derive("MC_C12C_quick.cfg", "MC_C12C_thorough.cfg", {"Depth": "3", "CondKinds": '{"Cond", "CondDiag", "CondId", "CondIdDiag"}'})
derive("MC_C13a_quick.cfg", "MC_C13a_thorough.cfg", {"Rs": "{1, 2, 3, 4}", "Offs": "{0, 1}", "PdfKinds": '{"PDF:S", "PDF:SLD", "DiagPDF:S"}'})
derive("MC_C13c_quick.cfg", "MC_C13c_thorough.cfg", {"Ds": "{1, 2, 3, 4}", "Rs": "{1, 2, 3, 4}"})
derive("MC_C13b_quick.cfg", "MC_C13b_thorough.cfg", {"Dims": ALLDIMS, "RPairs": "{11, 12, 13, 21, 31}", "Offs": "{0, 1}", "Modes": '{"S", "L"}'})
derive("MC_C14_quick.cfg", "MC_C14_thorough.cfg", {"Rs": "{1, 2, 3, 4}"})
derive("MC_C14a_quick.cfg", "MC_C14a_thorough.cfg", {"Dims": "{11, 12, 21, 22, 13, 31}", "RPairs": "{11, 12, 13, 22, 33}", "Offs": "{0, 1}", "Modes": '{"S", "L"}'})
derive("MC_C14b_quick.cfg", "MC_C14b_thorough.cfg", {"Dims": ALLDIMS, "RPairs": "{11, 12, 13}", "Offs": "{0, 1}", "Modes": '{"S", "L"}'})
derive("MC_C14c_quick.cfg", "MC_C14c_thorough.cfg", {"Dims": "{11, 12, 21, 22, 13, 31}", "Dks": "{1, 2, 3}", "Offs": "{0, 1, 2}"})
derive("MC_C14d_quick.cfg", "MC_C14d_thorough.cfg", {"Dims": "{11, 12, 21, 22, 13, 31}", "Dks": "{1, 2, 3}", "Offs": "{0, 1, 2}"})
derive("MC_C15a_quick.cfg", "MC_C15a_thorough.cfg", {"Ds": "{1, 2, 3}", "R1s": "{1, 2, 3}", "R2s": "{1, 2}", "Offs": "{1}"})
derive("MC_C15b_quick.cfg", "MC_C15b_thorough.cfg", {"RPairs": "{11, 12, 13, 21, 31}", "Offs": "{0, 1}", "Modes": '{"S", "L", "SLD"}'})
derive("MC_C15c_quick.cfg", "MC_C15c_thorough.cfg", {"MaxDeviate": "1", "Rs": "{1, 2, 3}"})
derive("MC_C16_quick.cfg", "MC_C16_thorough.cfg", {"Dims": "{11, 12, 21, 22, 13, 31}", "Dks": "{1, 2, 3}", "Das": "{2, 3, 4}", "Offs": "{0, 1, 2, 3}"})
derive("MC_C17_quick.cfg", "MC_C17_thorough.cfg", {"Dks": "{1, 2}", "Das": "{2, 3}", "Offs": "{0, 1, 2, 3, 4, 5}"})
derive("MC_C19_quick.cfg", "MC_C19_thorough.cfg", {"Rs": "{1, 2, 3, 4}", "Offs": "{0, 1, 2}", "NSamples": "{1, 3, 8}", "Seeds": "{0, 7, 42}", "BigN": "{600001, 1500000}"})
derive("MC_C20_quick.cfg", "MC_C20_thorough.cfg", {"Rs": "{1, 2, 3}", "Offs": "{0, 1, 2, 3}"})
derive("MC_NN_quick.cfg", "MC_NN_thorough.cfg", {"Dims": "{11, 12, 21, 22, 13, 31}", "Dus": "{1, 2, 3}", "Offs": "{0, 1, 2}"})
derive("MC_NNq_quick.cfg", "MC_NNq_thorough.cfg", {"Dims": "{11, 12, 21, 22}", "Dus": "{1, 2, 3}", "Offs": "{0, 1, 2}"})
# "XL" instances: larger shapes than any menu-sized instance (D = 4, R up to 5, joint dimension up to 8)
derive("MC_C01_quick.cfg", "MC_C01_xl.cfg", {"Ds": "{4}", "R1s": "{2}", "R2s": "{5}", "Offs": "{0}"})
for c in ("C07", "C08", "C09"):
    derive(f"MC_{c}_quick.cfg", f"MC_{c}_xl.cfg", {"Dims": "{34, 43, 44}", "RPairs": "{14, 51}", "Offs": "{0}", "Modes": '{"S"}',
                                                  "CondKinds": '{"Cond", "CondId"}'})
derive("MC_C10_quick.cfg", "MC_C10_xl.cfg", {"Dims": "{34, 43, 44}", "RPairs": "{11, 51}", "Offs": "{0}", "Modes": '{"S"}', "CondKinds": '{"Cond", "CondId"}'})
derive("MC_C06_quick.cfg", "MC_C06_xl.cfg", {"Ds": "{4}", "Rs": "{5}", "Offs": "{0}", "PdfKinds": '{"PDF:S"}'})
derive("MC_C13a_quick.cfg", "MC_C13a_xl.cfg", {"Ds": "{4}", "Rs": "{1, 5}", "Offs": "{0}"})
print("ok")
