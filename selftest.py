#!/usr/bin/env python3
"""Self-validation of the machinery (not a property check; run by hand:  /venv/bin/python selftest.py).

 1. Specification mutants: a wrong formula in the specification must make TLC report the corresponding invariant
    violated (the invariants are not vacuous).
 2. B1 binding: corrupting one expected field of an exported behaviour must make the replay reject it.
 3. B2 binding: corrupting one recorded observation, or dropping one recorded event, must make trace validation fail.
"""
import copy, json, os, re, shutil, subprocess, sys, tempfile
from fractions import Fraction
VERIF = os.path.dirname(os.path.abspath(__file__))
sys.path.insert(0, VERIF)
from harness import tlcrun

MUTANTS = [
    ("MeasureOps.tla", "ShermanDet(S, dS, v, g) == FDiv(dS,", "ShermanDet(S, dS, v, g) == FMul(dS,", "MC_C01", "MC_C01_quick.cfg", "Inv_CacheCoherent"),
    ("PdfOps.tla", "VSub(MatVec(ID[k].inv, p.nu[j]), MatVec(Mx[k], c.b[i])))", "VAdd(MatVec(ID[k].inv, p.nu[j]), MatVec(Mx[k], c.b[i])))", "MC_COND", "MC_C09_quick.cfg", "Inv_Transform"),
    ("PdfOps.tla", "LN(FNeg(FHalfOf(Quad(r, c.Lam[I(n)], r))), 0 - CDy(c), FInv(c.dSig[I(n)]))", "LN(FNeg(FHalfOf(Quad(r, c.Lam[I(n)], r))), 0 - CDx(c), FInv(c.dSig[I(n)]))", "MC_COND", "MC_C10_quick.cfg", "Inv_SetY"),
    ("Trunc.tla", "PolyScale(FI(j - 1), TB(j - 2)))", "PolyScale(FI(j), TB(j - 2)))", "MC_C20", "MC_C20_quick.cfg", "Inv_TruncCertificate"),
    ("Moments.tla", "FAdd3(FMul(e1, FC(f2, f3, S)), FMul(e2, FC(f1, f3, S)), FMul(e3, FC(f1, f2, S))))", "FAdd(FMul(e1, FC(f2, f3, S)), FMul(e2, FC(f1, f3, S))))", "MC_C03", "MC_C03_quick.cfg", "Inv_IntegrateTable"),
    ("PdfOps.tla", "Block(p.Sig[j], Transpose(MS), MS, MAdd(c.Sig[i], MatMulT(MS, c.M[i])))", "Block(p.Sig[j], Transpose(MS), MS, MatMulT(MS, c.M[i]))", "MC_COND", "MC_C07_quick.cfg", "Inv_Transform"),
    ("MeasureOps.tla", "Combine(u, f, NumR(u) * R2, LAMBDA k : OuterI(k, R2), LAMBDA k : OuterJ(k, R2), full)",
     "Combine(u, f, NumR(u) * R2, LAMBDA k : OuterJ(k, NumR(u)), LAMBDA k : OuterI(k, NumR(u)), full)", "MC_C01", "MC_C01_quick.cfg", "Inv_Pointwise"),
    # update() that also overwrites the last component (coherently, all fields): only the frame ACTION property sees it
    ("PdfOps.tla", "UpdateIdx(s, idx, t) == MkSeq(Len(s), LAMBDA r : IF \\E k \\in 1..Len(idx) : idx[k] = r",
     "UpdateIdx(s, idx, t) == MkSeq(Len(s), LAMBDA r : IF r = Len(s) /\\ ~(\\E k \\in 1..Len(idx) : idx[k] = r) THEN t[1] ELSE IF \\E k \\in 1..Len(idx) : idx[k] = r",
     "MC_PDF", "MC_C12K_quick.cfg", "Prop_Frame"),
]


def spec_mutants():
    ok = True
    for fn, old, new, module, cfg, inv in MUTANTS:
        wd = tempfile.mkdtemp(prefix="gt_selftest_")
        try:
            for f in os.listdir(tlcrun.SPEC_DIR):
                if f.endswith(".tla") or f == cfg:
                    shutil.copy(os.path.join(tlcrun.SPEC_DIR, f), wd)
            p = os.path.join(wd, fn)
            s = open(p).read()
            assert s.count(old) == 1, (fn, old)
            open(p, "w").write(s.replace(old, new))
            cmd = ["java", "-XX:+UseParallelGC", "-Xss512m", "-Xmx3g", "-cp", tlcrun.JAR, "tlc2.TLC", "-workers", "8",
                   "-metadir", os.path.join(wd, "meta"), "-noGenerateSpecTE", "-config", cfg, module + ".tla"]
            out = subprocess.run(cmd, cwd=wd, capture_output=True, text=True, timeout=900).stdout
            m = (re.search(r"Invariant (\w+) is violated", out) or re.search(r"The invariant of (\w+) is equal to FALSE", out)
                 or re.search(r"Action property (\w+) is violated", out))
            got = m.group(1) if m else None
            if got is None:
                print(out[-1500:])
            print(f"spec mutant {fn}: {old[:50]}... -> TLC reports: {got} (expected {inv})")
            ok &= got == inv
        finally:
            shutil.rmtree(wd, ignore_errors=True)
    return ok


def b1_binding():
    from harness import replay
    cfg = open(os.path.join(tlcrun.SPEC_DIR, "MC_C07_quick.cfg")).read()
    behs, _ = tlcrun.run_model("MC_COND", cfg, nprimes=6, timeout=900)
    b = next(x for x in behs if any(st["act"] == "Transform" and st["id"] for st in x))
    assert replay.Replayer().run(b) is None
    c = copy.deepcopy(b)
    for st in c:
        if st["act"] == "Transform" and st["id"]:
            st["o"]["mu"][0][0] += Fraction(1, 10 ** 6)
    mm = replay.Replayer().run(c)
    print("B1: corrupted expected mu of the joint by 1e-6 ->", None if mm is None else (mm["act"], mm["field"]))
    return mm is not None and mm["field"].endswith("mu")


def b2_binding():
    from harness import b2, driver
    orig = driver.generate
    ok = True
    # (a) corrupt one recorded observation
    def gen_corrupt(seed, n, length, family):
        ss = orig(seed, n, length, family)
        for s in ss:
            for ob in s.obs:
                if ob["new"] is not None and ob["new"].Lambda is not None:
                    ob["new"].Lambda = ob["new"].Lambda + 1e-6
                    return ss
        return ss
    driver.generate = gen_corrupt
    mms, _, _, _ = b2.validate(3, 6, 6, "MC", nprimes=8)
    print("B2: one recorded Lambda corrupted by 1e-6 ->", [(m["act"], m["field"]) for m, _ in mms][:2])
    ok &= len(mms) >= 1
    # (b) drop one recorded event (a mutating call) from the trace that TLC sees
    def gen_drop(seed, n, length, family):
        ss = orig(seed, n, length, family)
        for s in ss:
            for k, ev in enumerate(s.events):
                if ev["op"] in ("Normalize", "Update", "UpdateSigma"):
                    del s.events[k]; del s.obs[k]
                    return ss
        return ss
    driver.generate = gen_drop
    mms, _, _, _ = b2.validate(3, 25, 8, "MC", nprimes=8)
    print("B2: one recorded mutating event dropped ->", [(m["act"], m["field"]) for m, _ in mms][:2])
    ok &= len(mms) >= 1
    driver.generate = orig
    return ok


if __name__ == "__main__":
    r1 = spec_mutants()
    r2 = b1_binding()
    r3 = b2_binding()
    print("SELFTEST", "PASS" if (r1 and r2 and r3) else "FAIL", dict(spec_mutants=r1, b1=r2, b2=r3))
    sys.exit(0 if (r1 and r2 and r3) else 1)
