#!/bin/sh
# usage: tools_seed_eval.sh <seed dir under /verif/seeded> <worktree with the change applied | REPO> <property> ...
# Runs the quick checks of the listed properties against a tree containing the seeded change.
#   REPO: the documented procedure - apply the patch to /repo, run, git checkout -- .
#   a worktree path: the same checks with VERIF_REPO pointing at a scratch worktree that has the patch applied
seed=$1; tree=$2; shift; shift
if [ "$tree" = "REPO" ]; then
  cd /repo || exit 2
  if [ -n "$(git status --porcelain --untracked-files=no)" ]; then echo "/repo has uncommitted changes"; exit 2; fi
  git apply /verif/seeded/$seed/patch.diff || { echo "patch does not apply"; exit 2; }
  tree=/repo; restore=1
fi
cd /verif
scratch=$(mktemp -d /tmp/seedeval_XXXX)
for p in "$@"; do
  out=$(VERIF_REPO=$tree VERIF_EVIDENCE_DIR=$scratch VERIF_REPLAY_DIR=$scratch ./check $p --tier ${TIER:-quick} 2>&1)
  rc=$?
  nviol=$(echo "$out" | grep -c "^VIOLATION")
  echo "SEED $seed property=$p exit=$rc violations=$nviol :: $(echo "$out" | grep "^  step" | head -2 | cut -c1-200 | tr '\n' '|')"
done
rm -rf $scratch
[ -n "$restore" ] && git -C /repo checkout -- .
exit 0
